//! C03 — ledger state equals a replay of the longest chain: one-step obligations on the chain
//! index (RingItem / BlockRing) and on the utxoset wind/unwind of a transaction.
use crate::env::*;
use saito_core::core::consensus::blockring::BlockRing;
use saito_core::core::consensus::ringitem::RingItem;
use saito_core::core::consensus::slip::{Slip, SlipType};
use saito_core::core::consensus::transaction::Transaction;
use saito_core::core::defs::{SaitoHash, UtxoSet};

fn h(b: u8) -> SaitoHash {
    let mut x = [0u8; 32];
    x[0] = b;
    x[31] = b;
    x
}

/// RingItem with exactly K entries (K concrete per harness; ids and hash byte symbolic;
/// pairwise distinctness is NOT assumed) and an arbitrary designation.
fn any_ringitem<const K: usize>() -> RingItem {
    let mut it = RingItem::default();
    let mut i = 0;
    while i < K {
        let id: u64 = kani::any();
        let b: u8 = kani::any();
        it.add_block(id, h(b));
        i += 1;
    }
    if K > 0 && kani::any() {
        let p: usize = kani::any();
        kani::assume(p < K);
        it.lc_pos = Some(p);
    }
    it
}

/// RingItem::delete_block keeps the longest-chain designation: afterwards `lc_pos` designates
/// the same (id, hash) entry as before, or None if that entry was deleted / nothing was
/// designated.
fn ringitem_delete<const K: usize>() {
    let mut it = any_ringitem::<K>();
    let pre_ids = it.block_ids.clone();
    let pre_hashes = it.block_hashes.clone();
    let pre_lc = it.lc_pos;
    let del_id: u64 = kani::any();
    let del_b: u8 = kani::any();
    it.delete_block(del_id, h(del_b));
    let mut n = 0;
    let mut expect_lc: Option<usize> = None;
    let mut i = 0;
    while i < K {
        let deleted = pre_ids[i] == del_id && pre_hashes[i][0] == del_b;
        if !deleted {
            assert!(it.block_ids[n] == pre_ids[i]);
            assert!(it.block_hashes[n][0] == pre_hashes[i][0]);
            if pre_lc == Some(i) {
                expect_lc = Some(n);
            }
            n += 1;
        }
        i += 1;
    }
    assert!(it.block_ids.len() == n && it.block_hashes.len() == n);
    assert!(it.lc_pos == expect_lc);
    kani::cover!(pre_lc.is_none() && n > 0, "nothing designated, survivors exist");
    kani::cover!(pre_lc.is_some() && expect_lc.is_none(), "designated entry deleted");
    std::mem::forget(it);
    std::mem::forget(pre_ids);
    std::mem::forget(pre_hashes);
}
#[kani::proof]
#[kani::unwind(4)]
fn c03_ringitem_delete_k1() {
    ringitem_delete::<1>()
}
#[kani::proof]
#[kani::unwind(4)]
fn c03_ringitem_delete_k2() {
    ringitem_delete::<2>()
}
#[kani::proof]
#[kani::unwind(5)]
fn c03_ringitem_delete_k3() {
    ringitem_delete::<3>()
}

#[kani::proof]
#[kani::unwind(5)]
fn c03_ringitem_reorg() {
    let mut it = any_ringitem::<3>();
    let k = 3usize;
    let b: u8 = kani::any();
    let lc: bool = kani::any();
    let pre_hashes = it.block_hashes.clone();
    it.on_chain_reorganization(h(b), lc);
    if !lc {
        assert!(it.lc_pos.is_none());
    } else {
        match it.lc_pos {
            Some(p) => assert!(p < k && pre_hashes[p] == h(b)),
            None => {
                let mut i = 0;
                while i < k {
                    assert!(pre_hashes[i] != h(b));
                    i += 1;
                }
            }
        }
    }
    assert!(it.block_hashes.len() == k);
    kani::cover!(lc && it.lc_pos.is_some(), "set");
    kani::cover!(lc && it.lc_pos.is_none() && k > 0, "hash absent");
    std::mem::forget(it);
}

// ---------------------------------------------------------------- BlockRing (gp = 2: ring of 4)
/// designation at (id) after the call, read through the public accessor
fn lc_at(r: &BlockRing, id: u64) -> Option<SaitoHash> {
    r.get_longest_chain_block_hash_at_block_id(id)
}

/// Ring of 4 slots.  Shape is concrete, content symbolic: the slot of `id` holds two entries
/// (ids `id` and either `id` again — a sibling — or `id+4`, the next lap), the slot of `id-1`
/// holds one entry (id-1 or id+3), one further slot holds one entry.  Every slot's designation
/// is arbitrary.
fn any_ring(id: u64) -> BlockRing {
    let mut r = BlockRing::new(2);
    let s = (id % 4) as usize;
    let sibling: bool = kani::any();
    let b0: u8 = kani::any();
    let b1: u8 = kani::any();
    r.ring[s].add_block(id, h(b0));
    r.ring[s].add_block(if sibling { id } else { id + 4 }, h(b1));
    if kani::any() {
        let p: usize = kani::any();
        kani::assume(p < 2);
        r.ring[s].lc_pos = Some(p);
    }
    let sp = ((id + 3) % 4) as usize;
    let prev_lap: bool = kani::any();
    let b2: u8 = kani::any();
    r.ring[sp].add_block(if prev_lap { id + 3 } else { id - 1 }, h(b2));
    if kani::any() {
        r.ring[sp].lc_pos = Some(0);
    }
    let so = ((id + 1) % 4) as usize;
    let b3: u8 = kani::any();
    r.ring[so].add_block(id + 1, h(b3));
    if kani::any() {
        r.ring[so].lc_pos = Some(0);
    }
    r
}

/// on_chain_reorganization(id, h, true) where (id, h) is in the ring: afterwards the tip hash
/// is h and the heights id-1 / id+1 keep their designation.
fn c03_blockring_reorg_true<const ID: u64>() {
    let id: u64 = ID;
    let mut r = any_ring(id);
    let target = r.ring[(id % 4) as usize].block_hashes[0];
    let pre_prev = lc_at(&r, id - 1);
    let pre_next = lc_at(&r, id + 1);
    r.on_chain_reorganization(id, target, true);
    assert!(r.get_latest_block_hash()[0] == target[0]);
    assert!(r.get_latest_block_id() == id);
    assert!(lc_at(&r, id).map(|x| x[0]) == Some(target[0]));
    assert!(lc_at(&r, id - 1).map(|x| x[0]) == pre_prev.map(|x| x[0]));
    assert!(lc_at(&r, id + 1).map(|x| x[0]) == pre_next.map(|x| x[0]));
    kani::cover!(pre_prev.is_some(), "previous height designated");
    std::mem::forget(r);
}
#[kani::proof]
#[kani::unwind(5)]
fn c03_blockring_reorg_true_id1() {
    c03_blockring_reorg_true::<1>()
}
#[kani::proof]
#[kani::unwind(5)]
fn c03_blockring_reorg_true_id4() {
    c03_blockring_reorg_true::<4>()
}

/// on_chain_reorganization(id, h, false): clears height `id` only; when the ring's tip pointer
/// was at this slot it moves to height id-1 iff that slot designates a block with id-1, else
/// becomes unknown; a tip pointer elsewhere is untouched.
fn c03_blockring_reorg_false<const ID: u64>() {
    let id: u64 = ID;
    let mut r = any_ring(id);
    let tip_is_here: bool = kani::any();
    r.lc_pos = if tip_is_here { Some((id % 4) as usize) } else if kani::any() { Some(((id + 1) % 4) as usize) } else { None };
    let pre_tip = r.lc_pos;
    let b: u8 = kani::any();
    let pre_prev = lc_at(&r, id - 1);
    let pre_next = lc_at(&r, id + 1);
    r.on_chain_reorganization(id, h(b), false);
    assert!(lc_at(&r, id).is_none());
    assert!(lc_at(&r, id - 1).map(|x| x[0]) == pre_prev.map(|x| x[0]));
    assert!(lc_at(&r, id + 1).map(|x| x[0]) == pre_next.map(|x| x[0]));
    if tip_is_here {
        if pre_prev.is_some() {
            assert!(r.get_latest_block_id() == id - 1);
            assert!(Some(r.get_latest_block_hash()[0]) == pre_prev.map(|x| x[0]));
            kani::cover!(true, "tip rolled back to id-1");
        } else {
            assert!(r.lc_pos.is_none());
            kani::cover!(true, "tip unknown");
        }
    } else {
        assert!(r.lc_pos == pre_tip);
    }
    std::mem::forget(r);
}
#[kani::proof]
#[kani::unwind(5)]
fn c03_blockring_reorg_false_id1() {
    c03_blockring_reorg_false::<1>()
}
#[kani::proof]
#[kani::unwind(5)]
fn c03_blockring_reorg_false_id4() {
    c03_blockring_reorg_false::<4>()
}

/// BlockRing::delete_block(id, h) does not change the designation of any other block: a
/// sibling at the same height, the next-lap block in the same slot, the neighbours.
fn c03_blockring_delete<const ID: u64>() {
    let id: u64 = ID;
    let mut r = any_ring(id);
    let s = (id % 4) as usize;
    // delete entry 0 or 1 of the slot, or something that is not there
    let which: u8 = kani::any();
    kani::assume(which <= 2);
    let (did, dh) = if which < 2 { (r.ring[s].block_ids[which as usize], r.ring[s].block_hashes[which as usize]) } else { (id, h(kani::any())) };
    let pre_lc_entry = r.ring[s].lc_pos.map(|p| (r.ring[s].block_ids[p], r.ring[s].block_hashes[p][0]));
    let pre_prev = lc_at(&r, id - 1);
    let pre_next = lc_at(&r, id + 1);
    r.delete_block(did, dh);
    let post_lc_entry = r.ring[s].lc_pos.map(|p| (r.ring[s].block_ids[p], r.ring[s].block_hashes[p][0]));
    match pre_lc_entry {
        None => assert!(post_lc_entry.is_none()),
        Some((lid, lh)) => {
            if lid == did && lh == dh[0] {
                // the designated entry itself matched the deletion
                assert!(post_lc_entry.is_none() || post_lc_entry == pre_lc_entry);
            } else {
                assert!(post_lc_entry == pre_lc_entry);
                kani::cover!(which < 2, "designated survivor next to a deleted entry");
            }
        }
    }
    assert!(lc_at(&r, id - 1).map(|x| x[0]) == pre_prev.map(|x| x[0]));
    assert!(lc_at(&r, id + 1).map(|x| x[0]) == pre_next.map(|x| x[0]));
    kani::cover!(pre_lc_entry.is_none() && which < 2, "nothing designated, entry deleted");
    std::mem::forget(r);
}
#[kani::proof]
#[kani::unwind(5)]
fn c03_blockring_delete_id1() {
    c03_blockring_delete::<1>()
}
#[kani::proof]
#[kani::unwind(5)]
fn c03_blockring_delete_id4() {
    c03_blockring_delete::<4>()
}

// ---------------------------------------------------------------- utxoset wind / unwind
fn any_slip(block_id: u64, tx: u64, idx: u8) -> Slip {
    let mut s = Slip::default();
    let kb: u8 = kani::any();
    s.public_key = [kb; 33];
    s.amount = kani::any();
    s.block_id = block_id;
    s.tx_ordinal = tx;
    s.slip_index = idx;
    s.slip_type = if kani::any() { SlipType::Normal } else { SlipType::ATR };
    s.generate_utxoset_key();
    s
}

/// winding a transaction removes exactly its value-carrying inputs and adds exactly its
/// value-carrying outputs as spendable; unwinding restores the previous set.
/// Pre-state: inputs (amount>0) present & spendable, outputs absent, one unrelated entry.
fn tx_wind_unwind<const NIN: usize, const NOUT: usize>() {
    let mut utxo: UtxoSet = UtxoSet::new();
    let mut tx = Transaction::default();
    let mut i = 0;
    while i < NIN {
        // inputs live at (block 1, tx 0, index i): pairwise distinct locations
        let s = any_slip(1, 0, i as u8);
        if s.amount > 0 {
            utxo.insert(s.utxoset_key, true);
        }
        tx.from.push(s);
        i += 1;
    }
    let mut o = 0;
    while o < NOUT {
        let s = any_slip(2, 0, o as u8);
        tx.to.push(s);
        o += 1;
    }
    let z = any_slip(9, 9, 0);
    let zflag: bool = kani::any();
    utxo.insert(z.utxoset_key, zflag);
    let pre_len = utxo.len();

    tx.on_chain_reorganization(&mut utxo, true);
    let mut spent = 0;
    let mut i = 0;
    while i < NIN {
        if tx.from[i].amount > 0 {
            assert!(utxo.get(&tx.from[i].utxoset_key).is_none());
            spent += 1;
        }
        i += 1;
    }
    let mut created = 0;
    let mut o = 0;
    while o < NOUT {
        if tx.to[o].amount > 0 {
            assert!(utxo.get(&tx.to[o].utxoset_key) == Some(&true));
            created += 1;
        } else {
            assert!(utxo.get(&tx.to[o].utxoset_key).is_none());
        }
        o += 1;
    }
    assert!(utxo.get(&z.utxoset_key) == Some(&zflag));
    assert!(utxo.len() == pre_len - spent + created);
    kani::cover!(spent == NIN && created == NOUT, "all value-carrying");

    tx.on_chain_reorganization(&mut utxo, false);
    let mut i = 0;
    while i < NIN {
        if tx.from[i].amount > 0 {
            assert!(utxo.get(&tx.from[i].utxoset_key) == Some(&true));
        }
        i += 1;
    }
    let mut o = 0;
    while o < NOUT {
        assert!(utxo.get(&tx.to[o].utxoset_key).is_none());
        o += 1;
    }
    assert!(utxo.get(&z.utxoset_key) == Some(&zflag));
    assert!(utxo.len() == pre_len);
    std::mem::forget(utxo);
    std::mem::forget(tx);
}
#[kani::proof]
#[kani::unwind(8)]
fn c03_tx_wind_unwind_1x1() {
    tx_wind_unwind::<1, 1>()
}
#[kani::proof]
#[kani::unwind(8)]
fn c03_tx_wind_unwind_2x1() {
    tx_wind_unwind::<2, 1>()
}
#[kani::proof]
#[kani::unwind(8)]
fn c03_tx_wind_unwind_1x2() {
    tx_wind_unwind::<1, 2>()
}

#[cfg(test)]
mod playback {
    use super::*;
    include!("/verif/.cache/replays/C03.rs");
}
