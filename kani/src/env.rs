//! Shared harness environment: single-poll executor, symbolic byte helpers.
use std::future::Future;
use std::pin::Pin;
use std::task::{Context, Poll, RawWaker, RawWakerVTable, Waker};

fn noop_raw() -> RawWaker {
    fn no(_: *const ()) {}
    fn cl(_: *const ()) -> RawWaker {
        noop_raw()
    }
    static VT: RawWakerVTable = RawWakerVTable::new(cl, no, no, no);
    RawWaker::new(std::ptr::null(), &VT)
}

/// Poll once; with the tokio model every future completes at its first poll.
/// A `Pending` is a modelling error and fails the harness.
pub fn block_on<F: Future>(f: F) -> F::Output {
    let waker = unsafe { Waker::from_raw(noop_raw()) };
    let mut cx = Context::from_waker(&waker);
    let mut f = Box::pin(f);
    match Pin::as_mut(&mut f).poll(&mut cx) {
        Poll::Ready(v) => v,
        Poll::Pending => panic!("harness env: future returned Pending (tokio model is single-task)"),
    }
}

/// `n` symbolic bytes as a Vec (n concrete, content symbolic).
#[cfg(kani)]
pub fn any_bytes<const N: usize>() -> Vec<u8> {
    let a: [u8; N] = kani::any();
    a.to_vec()
}

/// Vec with symbolic length `<= N` and symbolic content.
#[cfg(kani)]
pub fn any_bytes_upto<const N: usize>() -> Vec<u8> {
    let a: [u8; N] = kani::any();
    let n: usize = kani::any();
    kani::assume(n <= N);
    a[..n].to_vec()
}
