//! Shared harness environment: single-poll executor, symbolic byte helpers.
use std::future::Future;
use std::pin::Pin;
use std::task::{Context, Poll, RawWaker, RawWakerVTable, Waker};

fn noop_raw() -> RawWaker {
    fn no(_: *const ()) {}
    fn cl(_: *const ()) -> RawWaker {
        noop_raw()
    }
    static VT: RawWakerVTable = RawWakerVTable::new(cl, no, no, no);
    RawWaker::new(std::ptr::null(), &VT)
}

/// Poll once; with the tokio model every future completes at its first poll.
/// A `Pending` is a modelling error and fails the harness.
pub fn block_on<F: Future>(f: F) -> F::Output {
    let waker = unsafe { Waker::from_raw(noop_raw()) };
    let mut cx = Context::from_waker(&waker);
    let mut f = Box::pin(f);
    match Pin::as_mut(&mut f).poll(&mut cx) {
        Poll::Ready(v) => v,
        Poll::Pending => panic!("harness env: future returned Pending (tokio model is single-task)"),
    }
}

/// `n` symbolic bytes as a Vec (n concrete, content symbolic).
#[cfg(kani)]
pub fn any_bytes<const N: usize>() -> Vec<u8> {
    let a: [u8; N] = kani::any();
    a.to_vec()
}

/// Vec with symbolic length `<= N` and symbolic content.
#[cfg(kani)]
pub fn any_bytes_upto<const N: usize>() -> Vec<u8> {
    let a: [u8; N] = kani::any();
    let n: usize = kani::any();
    kani::assume(n <= N);
    a[..n].to_vec()
}

// ------------------------------------------------------------------------------------------
// Crypto oracles (hook H1 in saito-core/src/core/util/crypto.rs, guard --cfg saito_verif).
//
//  hash     : Fresh  — every call returns fresh symbolic 32 bytes (a superset of the behaviours
//                      of any real hash function: UNSAT under Fresh implies UNSAT for blake3);
//             Memo   — memoised uninterpreted function, equal input => equal output, new input
//                      => fresh output assumed different from every earlier output
//                      (collision freedom); table bounded by the harness.
//  verify   : Fresh  — arbitrary boolean per call, every call logged (hash, sig, key, answer);
//             Signed — Dolev–Yao: true iff (hash, sig, key) was produced by the `sign` oracle.
//  sign     : fresh symbolic 64 bytes, logged with hash(message) and pk_of(private key).
//  random   : fresh symbolic bytes.
//  pk_of(sk) = 0x02 ‖ sk  (injective by construction).
// ------------------------------------------------------------------------------------------
#[cfg(kani)]
pub mod oracle {
    use saito_core::core::defs::{SaitoHash, SaitoPrivateKey, SaitoPublicKey, SaitoSignature};
    use saito_core::core::util::crypto::verif_hooks;

    pub struct VerifyCall {
        pub hash: SaitoHash,
        pub sig: SaitoSignature,
        pub key: SaitoPublicKey,
        pub answer: bool,
    }
    pub struct SignCall {
        pub hash: SaitoHash,
        pub key: SaitoPublicKey,
        pub sig: SaitoSignature,
    }
    pub static mut VERIFY_LOG: Vec<VerifyCall> = Vec::new();
    pub static mut SIGN_LOG: Vec<SignCall> = Vec::new();
    pub static mut HASH_IN: Vec<Vec<u8>> = Vec::new();
    pub static mut HASH_OUT: Vec<SaitoHash> = Vec::new();
    pub static mut HASH_CALLS: usize = 0;
    pub static mut HASH_MAX_ENTRIES: usize = 8;

    pub fn pk_of(sk: &SaitoPrivateKey) -> SaitoPublicKey {
        let mut pk = [0u8; 33];
        pk[0] = 2;
        let mut i = 0;
        while i < 32 {
            pk[i + 1] = sk[i];
            i += 1;
        }
        pk
    }

    pub fn hash_fresh(_data: &[u8]) -> SaitoHash {
        unsafe { HASH_CALLS += 1 };
        kani::any()
    }
    pub fn hash_memo(data: &[u8]) -> SaitoHash {
        unsafe {
            HASH_CALLS += 1;
            let n = HASH_IN.len();
            let mut i = 0;
            while i < n {
                if HASH_IN[i].len() == data.len() && HASH_IN[i][..] == data[..] {
                    return HASH_OUT[i];
                }
                i += 1;
            }
            assert!(n < HASH_MAX_ENTRIES, "hash oracle table bound exceeded (outside the claim)");
            let out: SaitoHash = kani::any();
            let mut j = 0;
            while j < n {
                kani::assume(HASH_OUT[j] != out);
                j += 1;
            }
            HASH_IN.push(data.to_vec());
            HASH_OUT.push(out);
            out
        }
    }
    pub fn verify_fresh(h: &SaitoHash, s: &SaitoSignature, k: &SaitoPublicKey) -> bool {
        let answer: bool = kani::any();
        unsafe { VERIFY_LOG.push(VerifyCall { hash: *h, sig: *s, key: *k, answer }) };
        answer
    }
    /// consistent symbolic predicate: same triple => same answer
    pub fn verify_consistent(h: &SaitoHash, s: &SaitoSignature, k: &SaitoPublicKey) -> bool {
        unsafe {
            let n = VERIFY_LOG.len();
            let mut i = 0;
            while i < n {
                let c = &VERIFY_LOG[i];
                if c.hash == *h && c.sig == *s && c.key == *k {
                    let a = c.answer;
                    VERIFY_LOG.push(VerifyCall { hash: *h, sig: *s, key: *k, answer: a });
                    return a;
                }
                i += 1;
            }
        }
        verify_fresh(h, s, k)
    }
    pub fn verify_signed(h: &SaitoHash, s: &SaitoSignature, k: &SaitoPublicKey) -> bool {
        let mut answer = false;
        unsafe {
            let n = SIGN_LOG.len();
            let mut i = 0;
            while i < n {
                let c = &SIGN_LOG[i];
                if c.hash == *h && c.sig == *s && c.key == *k {
                    answer = true;
                }
                i += 1;
            }
            VERIFY_LOG.push(VerifyCall { hash: *h, sig: *s, key: *k, answer });
        }
        answer
    }
    pub fn sign_logged(msg: &[u8], sk: &SaitoPrivateKey) -> SaitoSignature {
        // the real `sign` hashes the message and signs the hash
        let h = unsafe { (verif_hooks::HASH.unwrap())(msg) };
        let sig: SaitoSignature = kani::any();
        unsafe { SIGN_LOG.push(SignCall { hash: h, key: pk_of(sk), sig }) };
        sig
    }
    pub fn random_fresh(len: u64) -> Vec<u8> {
        assert!(len <= 32);
        let a: [u8; 32] = kani::any();
        a[..len as usize].to_vec()
    }
    pub fn valid_key_any(_k: &SaitoPublicKey) -> bool {
        kani::any()
    }

    #[derive(Clone, Copy, PartialEq)]
    pub enum HashMode {
        Fresh,
        Memo,
    }
    #[derive(Clone, Copy, PartialEq)]
    pub enum VerifyMode {
        Fresh,
        Consistent,
        Signed,
    }
    pub fn install(h: HashMode, v: VerifyMode) {
        unsafe {
            verif_hooks::HASH = Some(match h {
                HashMode::Fresh => hash_fresh,
                HashMode::Memo => hash_memo,
            });
            verif_hooks::VERIFY = Some(match v {
                VerifyMode::Fresh => verify_fresh,
                VerifyMode::Consistent => verify_consistent,
                VerifyMode::Signed => verify_signed,
            });
            verif_hooks::SIGN = Some(sign_logged);
            verif_hooks::RANDOM = Some(random_fresh);
            verif_hooks::VALID_KEY = Some(valid_key_any);
        }
    }
    /// was V(hash, sig, key) asked and answered `true`?
    pub fn verified_true(h: &SaitoHash, s: &SaitoSignature, k: &SaitoPublicKey) -> bool {
        unsafe {
            let mut i = 0;
            while i < VERIFY_LOG.len() {
                let c = &VERIFY_LOG[i];
                if c.answer && c.hash == *h && c.sig == *s && c.key == *k {
                    return true;
                }
                i += 1;
            }
        }
        false
    }
}
