//! C10 — decoders are total.  No oracle, no stubs: native replay is exact.
use crate::env::*;
use saito_core::core::consensus::block::Block;
use saito_core::core::consensus::golden_ticket::GoldenTicket;
use saito_core::core::consensus::hop::Hop;
use saito_core::core::consensus::peers::peer_service::PeerService;
use saito_core::core::consensus::slip::Slip;
use saito_core::core::consensus::transaction::Transaction;
use saito_core::core::consensus::wallet::Wallet;
use saito_core::core::msg::block_request::BlockchainRequest;
use saito_core::core::msg::handshake::{HandshakeChallenge, HandshakeResponse};
use saito_core::core::msg::message::Message;
use saito_core::core::process::version::Version;
use saito_core::core::util::serialize::Serialize;


fn tx_total<const N: usize>() {
    let v = any_bytes::<N>();
    let r = Transaction::deserialize_from_net(&v);
    if let Ok(tx) = &r {
        kani::cover!(true, "decoded");
        // allocation bound: nothing larger than the input
        assert!(tx.from.len() * 59 + tx.to.len() * 59 + tx.data.len() + tx.path.len() * 130 + 93 <= N);
    } else {
        kani::cover!(true, "rejected");
    }
    std::mem::forget(r);
}
macro_rules! tx_len {
    ($name:ident, $n:expr, $u:expr) => {
        #[kani::proof]
        #[kani::unwind($u)]
        fn $name() {
            tx_total::<$n>()
        }
    };
}
// boundary lengths: header, header+1, one slip -1/0/+1, two slips, slip+hop.  (len < 93 is the
// early return, covered by c10_tx_short).  unwind = max elements that fit + 2.
tx_len!(c10_tx_len093, 93, 2);
tx_len!(c10_tx_len094, 94, 2);
tx_len!(c10_tx_len151, 151, 2);
tx_len!(c10_tx_len152, 152, 3);
tx_len!(c10_tx_len153, 153, 3);
tx_len!(c10_tx_len211, 211, 4);
tx_len!(c10_tx_len223, 223, 4);
tx_len!(c10_tx_len282, 282, 5);

#[kani::proof]
fn c10_tx_short() {
    let v = any_bytes_upto::<92>();
    let r = Transaction::deserialize_from_net(&v);
    assert!(r.is_err());
    kani::cover!(v.len() == 92, "longest short buffer");
    std::mem::forget(r);
}

#[kani::proof]
fn c10_slip_total() {
    let v = any_bytes_upto::<60>();
    let r = Slip::deserialize_from_net(&v);
    kani::cover!(r.is_ok(), "decoded");
    kani::cover!(r.is_err() && v.len() == 59, "rejected at full length (bad slip type)");
    std::mem::forget(r);
}

#[kani::proof]
fn c10_hop_total() {
    let v = any_bytes_upto::<131>();
    let r = Hop::deserialize_from_net(&v);
    kani::cover!(r.is_ok(), "decoded");
    std::mem::forget(r);
}

#[kani::proof]
fn c10_utxokey_total() {
    let k: [u8; 59] = kani::any();
    let r = Slip::parse_slip_from_utxokey(&k);
    kani::cover!(r.is_ok(), "decoded");
    kani::cover!(r.is_err(), "rejected");
    std::mem::forget(r);
}

#[kani::proof]
fn c10_version_total() {
    let v = any_bytes_upto::<6>();
    let r = Version::deserialize(&v);
    kani::cover!(r.is_ok(), "decoded");
    kani::cover!(r.is_err(), "rejected");
    std::mem::forget(r);
}

#[kani::proof]
fn c10_blockchain_request_total() {
    let v = any_bytes_upto::<74>();
    let r = BlockchainRequest::deserialize(&v);
    kani::cover!(r.is_ok(), "decoded");
    kani::cover!(r.is_err(), "rejected");
    std::mem::forget(r);
}

#[kani::proof]
fn c10_challenge_total() {
    let v = any_bytes_upto::<34>();
    let r = HandshakeChallenge::deserialize(&v);
    kani::cover!(r.is_ok(), "decoded");
    kani::cover!(r.is_err(), "rejected");
    std::mem::forget(r);
}

// ---- Message::deserialize, one harness per (tag, payload length)
fn msg_total<const TAG: u8, const N: usize>() {
    let a: [u8; N] = kani::any();
    let mut v = Vec::with_capacity(N + 1);
    v.push(TAG);
    v.extend_from_slice(&a);
    let r = Message::deserialize(v);
    kani::cover!(r.is_ok(), "decoded");
    if let Ok(m) = &r {
        assert!(m.get_type_value() == TAG);
    }
    std::mem::forget(r);
}
macro_rules! msg_len {
    ($name:ident, $tag:expr, $n:expr, $u:expr) => {
        #[kani::proof]
        #[kani::unwind($u)]
        fn $name() {
            msg_total::<$tag, $n>()
        }
    };
}
msg_len!(c10_msg_t01_len32, 1, 32, 2);
msg_len!(c10_msg_t05_len72, 5, 72, 2);
msg_len!(c10_msg_t06_len40, 6, 40, 2);
msg_len!(c10_msg_t07_len00, 7, 0, 2);
msg_len!(c10_msg_t08_len00, 8, 0, 2);
msg_len!(c10_msg_t10_len36, 10, 36, 2);
msg_len!(c10_msg_t10_len37, 10, 37, 2);
msg_len!(c10_msg_t10_len117, 10, 117, 3);
msg_len!(c10_msg_t10_len118, 10, 118, 3);
msg_len!(c10_msg_t10_len119, 10, 119, 3);
msg_len!(c10_msg_t11_len72, 11, 72, 2);
msg_len!(c10_msg_t12_len04, 12, 4, 2);
msg_len!(c10_msg_t13_len05, 13, 5, 2);
msg_len!(c10_msg_t14_len04, 14, 4, 2);
msg_len!(c10_msg_t15_len33, 15, 33, 3);
msg_len!(c10_msg_t15_len66, 15, 66, 4);

/// every tag, every short payload: the early-return guards.  Payload <= 35 bytes.
#[kani::proof]
#[kani::unwind(3)]
fn c10_msg_short_any_tag() {
    let tag: u8 = kani::any();
    // tags 3/4/2 have their own harnesses (block / transaction / handshake response);
    // tag 9 (services) parses text and has its own harness
    kani::assume(tag != 9);
    let a: [u8; 35] = kani::any();
    let n: usize = kani::any();
    kani::assume(n <= 35);
    let mut v = Vec::with_capacity(36);
    v.push(tag);
    v.extend_from_slice(&a[..n]);
    let r = Message::deserialize(v);
    kani::cover!(r.is_ok(), "decoded");
    kani::cover!(r.is_err(), "rejected");
    kani::cover!(tag == 10 && n == 35, "ghost chain header one byte short");
    std::mem::forget(r);
}

#[kani::proof]
fn c10_msg_empty() {
    let r = Message::deserialize(vec![]);
    assert!(r.is_err());
    kani::cover!(true, "reached");
    std::mem::forget(r);
}

// ---- handshake response: fixed part is 142 bytes, then url, then services text
fn hsr_total<const N: usize>() {
    let v = any_bytes::<N>();
    let r = HandshakeResponse::deserialize(&v);
    if let Ok(h) = &r {
        kani::cover!(true, "decoded");
        assert!(h.block_fetch_url.len() + 142 <= N);
    } else {
        kani::cover!(true, "rejected");
    }
    std::mem::forget(r);
}
macro_rules! hsr_len {
    ($name:ident, $n:expr, $u:expr) => {
        #[kani::proof]
        #[kani::unwind($u)]
        fn $name() {
            hsr_total::<$n>()
        }
    };
}
hsr_len!(c10_hsr_len141, 141, 3);
hsr_len!(c10_hsr_len142, 142, 3);
hsr_len!(c10_hsr_len143, 143, 4);
hsr_len!(c10_hsr_len145, 145, 6);

// ---- block
fn block_total<const N: usize>() {
    let v = any_bytes::<N>();
    let r = Block::deserialize_from_net(&v);
    if let Ok(b) = &r {
        kani::cover!(true, "decoded");
        assert!(b.transactions.len() * 93 + 389 <= N);
    } else {
        kani::cover!(true, "rejected");
    }
    std::mem::forget(r);
}
macro_rules! block_len {
    ($name:ident, $n:expr, $u:expr) => {
        #[kani::proof]
        #[kani::unwind($u)]
        fn $name() {
            block_total::<$n>()
        }
    };
}
block_len!(c10_block_len388, 388, 2);
block_len!(c10_block_len389, 389, 2);
block_len!(c10_block_len404, 404, 2);
block_len!(c10_block_len405, 405, 2);
block_len!(c10_block_len481, 481, 2);
block_len!(c10_block_len482, 482, 3);
block_len!(c10_block_len483, 483, 3);

// ---- golden ticket payload and wallet file: accepted lengths
#[kani::proof]
fn c10_gt_len97() {
    let v = any_bytes::<97>();
    let gt = GoldenTicket::deserialize_from_net(&v);
    kani::cover!(true, "decoded");
    assert!(gt.target[..] == v[0..32]);
    std::mem::forget(gt);
}
/// witness of the known finding: any other length panics (assert_eq!(bytes.len(), 97))
#[kani::proof]
fn c10_gt_anylen_witness() {
    let v = any_bytes_upto::<98>();
    let gt = GoldenTicket::deserialize_from_net(&v);
    std::mem::forget(gt);
}
#[kani::proof]
fn c10_wallet_len65() {
    let v = any_bytes_upto::<70>();
    kani::assume(v.len() >= 65);
    let mut w = Wallet::new([0; 32], [0; 33]);
    w.deserialize_from_disk(&v);
    kani::cover!(true, "decoded");
    assert!(w.private_key[..] == v[0..32]);
    std::mem::forget(w);
}
/// witness of the known finding: a wallet file shorter than 65 bytes panics
#[kani::proof]
fn c10_wallet_short_witness() {
    let v = any_bytes_upto::<64>();
    let mut w = Wallet::new([0; 32], [0; 33]);
    w.deserialize_from_disk(&v);
    std::mem::forget(w);
}

// ---- services text
#[kani::proof]
#[kani::unwind(8)]
fn c10_services_len4() {
    let v = any_bytes_upto::<4>();
    let r = PeerService::deserialize_services(v);
    kani::cover!(r.is_ok(), "decoded");
    kani::cover!(r.is_err(), "rejected");
    std::mem::forget(r);
}


// ---- boundary-value count fields (the property's "single-field corruptions (length/count
// fields set to boundary values)"): the four count fields are concrete, taken from a table of
// base layouts that fit the buffer exactly and of single-field corruptions of them; every
// other byte is symbolic.  Concrete counts make the decoder's loops concrete for the solver.
fn tx_counts_case<const N: usize>(il: u32, ol: u32, ml: u32, pl: u32) {
    let mut a: [u8; N] = kani::any();
    a[0..4].copy_from_slice(&il.to_be_bytes());
    a[4..8].copy_from_slice(&ol.to_be_bytes());
    a[8..12].copy_from_slice(&ml.to_be_bytes());
    a[12..16].copy_from_slice(&pl.to_be_bytes());
    let v = a.to_vec();
    let need = 93u64 + 59 * il as u64 + 59 * ol as u64 + ml as u64 + 130 * pl as u64;
    let r = Transaction::deserialize_from_net(&v);
    if need > N as u64 || il > 255 || ol > 255 {
        assert!(r.is_err());
    }
    if let Ok(tx) = &r {
        assert!(tx.from.len() == il as usize && tx.to.len() == ol as usize);
        assert!(tx.data.len() == ml as usize && tx.path.len() == pl as usize);
    }
    std::mem::forget(r);
}
fn tx_counts_table<const N: usize>(bases: &[(u32, u32, u32, u32)]) {
    const BAD: [u32; 3] = [255, 256, u32::MAX];
    for b in bases {
        tx_counts_case::<N>(b.0, b.1, b.2, b.3);
        for f in 0..4 {
            let cur = [b.0, b.1, b.2, b.3][f];
            let mut vals = [cur.wrapping_add(1), cur.wrapping_sub(1), BAD[0], BAD[1], BAD[2]];
            for v in vals {
                let mut c = [b.0, b.1, b.2, b.3];
                c[f] = v;
                tx_counts_case::<N>(c[0], c[1], c[2], c[3]);
            }
        }
    }
}
#[kani::proof]
#[kani::unwind(4)]
fn c10_tx_counts_152() {
    tx_counts_table::<152>(&[(1, 0, 0, 0), (0, 1, 0, 0), (0, 0, 59, 0)]);
    kani::cover!(true, "table completed");
}
#[kani::proof]
#[kani::unwind(4)]
fn c10_tx_counts_223() {
    tx_counts_table::<223>(&[(0, 0, 0, 1), (1, 0, 71, 0), (0, 0, 130, 0)]);
    kani::cover!(true, "table completed");
}
#[kani::proof]
#[kani::unwind(4)]
fn c10_tx_counts_one() {
    tx_counts_case::<152>(1, 0, 0, 0);
    tx_counts_case::<152>(2, 0, 0, 0);
    tx_counts_case::<152>(0, 0, 60, 0);
    kani::cover!(true, "completed");
}

fn hsr_url_case<const N: usize>(url_len: u32) {
    let mut a: [u8; N] = kani::any();
    a[138..142].copy_from_slice(&url_len.to_be_bytes());
    let v = a.to_vec();
    let r = HandshakeResponse::deserialize(&v);
    if 142 + url_len as u64 > N as u64 {
        assert!(r.is_err());
    }
    if let Ok(h) = &r {
        kani::cover!(true, "decoded");
        assert!(h.block_fetch_url.len() == url_len as usize);
    }
    std::mem::forget(r);
}
/// url fills the rest of the buffer exactly (no services text), and corruptions of the field
#[kani::proof]
#[kani::unwind(7)]
fn c10_hsr_urlfield_146() {
    hsr_url_case::<146>(4);
    hsr_url_case::<146>(5);
    hsr_url_case::<146>(146);
    hsr_url_case::<146>(147);
    hsr_url_case::<146>(u32::MAX);
}

#[cfg(test)]
mod playback {
    use super::*;
    include!("/verif/.cache/replays/C10.rs");
}
