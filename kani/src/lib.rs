#![allow(unused_imports, dead_code, unused_variables, unused_mut)]
pub mod env;
#[cfg(kani)]
mod c03;
#[cfg(kani)]
mod c10;
