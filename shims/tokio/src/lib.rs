//! Verification model of `tokio::sync::{RwLock, mpsc}` for engine K (Kani).
//!
//! One task, no interleaving.  Every future completes at its first poll.  Acquiring a lock in
//! a mode that conflicts with a guard the (single) task already holds is an `assert!` failure:
//! in the real tokio it would be a self-deadlock.  `mpsc::Sender::send` on a full channel is an
//! `assert!` failure for the same reason (the receiver can never run).
//!
//! Trusted base of every obligation that goes through a lock or a channel.

pub mod sync {
    use std::cell::{Cell, UnsafeCell};
    use std::ops::{Deref, DerefMut};

    pub struct RwLock<T: ?Sized> {
        readers: Cell<usize>,
        writer: Cell<bool>,
        value: UnsafeCell<T>,
    }
    unsafe impl<T: ?Sized + Send> Send for RwLock<T> {}
    unsafe impl<T: ?Sized + Send + Sync> Sync for RwLock<T> {}

    impl<T> RwLock<T> {
        pub fn new(value: T) -> Self {
            RwLock { readers: Cell::new(0), writer: Cell::new(false), value: UnsafeCell::new(value) }
        }
        pub fn into_inner(self) -> T {
            self.value.into_inner()
        }
    }
    impl<T: ?Sized> RwLock<T> {
        pub async fn read(&self) -> RwLockReadGuard<'_, T> {
            assert!(!self.writer.get(), "tokio model: read() while this task holds the write guard (self-deadlock)");
            self.readers.set(self.readers.get() + 1);
            RwLockReadGuard { lock: self }
        }
        pub async fn write(&self) -> RwLockWriteGuard<'_, T> {
            assert!(!self.writer.get(), "tokio model: write() while this task holds the write guard (self-deadlock)");
            assert!(self.readers.get() == 0, "tokio model: write() while this task holds a read guard (self-deadlock)");
            self.writer.set(true);
            RwLockWriteGuard { lock: self }
        }
        pub fn get_mut(&mut self) -> &mut T {
            self.value.get_mut()
        }
    }
    impl<T: Default> Default for RwLock<T> {
        fn default() -> Self {
            Self::new(T::default())
        }
    }
    impl<T: ?Sized> std::fmt::Debug for RwLock<T> {
        fn fmt(&self, f: &mut std::fmt::Formatter<'_>) -> std::fmt::Result {
            f.write_str("RwLock(model)")
        }
    }

    pub struct RwLockReadGuard<'a, T: ?Sized> {
        lock: &'a RwLock<T>,
    }
    unsafe impl<T: ?Sized + Sync> Send for RwLockReadGuard<'_, T> {}
    unsafe impl<T: ?Sized + Sync> Sync for RwLockReadGuard<'_, T> {}
    impl<T: ?Sized> Deref for RwLockReadGuard<'_, T> {
        type Target = T;
        fn deref(&self) -> &T {
            unsafe { &*self.lock.value.get() }
        }
    }
    impl<T: ?Sized> Drop for RwLockReadGuard<'_, T> {
        fn drop(&mut self) {
            self.lock.readers.set(self.lock.readers.get() - 1);
        }
    }

    pub struct RwLockWriteGuard<'a, T: ?Sized> {
        lock: &'a RwLock<T>,
    }
    unsafe impl<T: ?Sized + Send + Sync> Send for RwLockWriteGuard<'_, T> {}
    unsafe impl<T: ?Sized + Send + Sync> Sync for RwLockWriteGuard<'_, T> {}
    impl<T: ?Sized> Deref for RwLockWriteGuard<'_, T> {
        type Target = T;
        fn deref(&self) -> &T {
            unsafe { &*self.lock.value.get() }
        }
    }
    impl<T: ?Sized> DerefMut for RwLockWriteGuard<'_, T> {
        fn deref_mut(&mut self) -> &mut T {
            unsafe { &mut *self.lock.value.get() }
        }
    }
    impl<T: ?Sized> Drop for RwLockWriteGuard<'_, T> {
        fn drop(&mut self) {
            self.lock.writer.set(false);
        }
    }

    pub mod mpsc {
        use std::cell::RefCell;
        use std::collections::VecDeque;
        use std::rc::Rc;

        pub mod error {
            #[derive(Debug, PartialEq, Eq, Clone, Copy)]
            pub struct SendError<T>(pub T);
            impl<T> std::fmt::Display for SendError<T> {
                fn fmt(&self, f: &mut std::fmt::Formatter<'_>) -> std::fmt::Result {
                    f.write_str("channel closed")
                }
            }
            impl<T: std::fmt::Debug> std::error::Error for SendError<T> {}
            #[derive(Debug, PartialEq, Eq, Clone, Copy)]
            pub enum TryRecvError {
                Empty,
                Disconnected,
            }
        }

        struct Chan<T> {
            q: RefCell<VecDeque<T>>,
            cap: usize,
        }
        pub struct Sender<T> {
            chan: Rc<Chan<T>>,
        }
        pub struct Receiver<T> {
            chan: Rc<Chan<T>>,
        }
        // single-task model: these are never actually moved across threads
        unsafe impl<T: Send> Send for Sender<T> {}
        unsafe impl<T: Send> Sync for Sender<T> {}
        unsafe impl<T: Send> Send for Receiver<T> {}
        unsafe impl<T: Send> Sync for Receiver<T> {}

        impl<T> Clone for Sender<T> {
            fn clone(&self) -> Self {
                Sender { chan: self.chan.clone() }
            }
        }
        impl<T> std::fmt::Debug for Sender<T> {
            fn fmt(&self, f: &mut std::fmt::Formatter<'_>) -> std::fmt::Result {
                f.write_str("Sender(model)")
            }
        }
        impl<T> std::fmt::Debug for Receiver<T> {
            fn fmt(&self, f: &mut std::fmt::Formatter<'_>) -> std::fmt::Result {
                f.write_str("Receiver(model)")
            }
        }

        pub fn channel<T>(buffer: usize) -> (Sender<T>, Receiver<T>) {
            assert!(buffer > 0);
            let chan = Rc::new(Chan { q: RefCell::new(VecDeque::new()), cap: buffer });
            (Sender { chan: chan.clone() }, Receiver { chan })
        }

        impl<T> Sender<T> {
            pub async fn send(&self, value: T) -> Result<(), error::SendError<T>> {
                let mut q = self.chan.q.borrow_mut();
                assert!(q.len() < self.chan.cap, "tokio model: send() on a full channel blocks forever in a single task");
                q.push_back(value);
                Ok(())
            }
            pub fn capacity(&self) -> usize {
                self.chan.cap - self.chan.q.borrow().len()
            }
            pub fn max_capacity(&self) -> usize {
                self.chan.cap
            }
        }
        impl<T> Receiver<T> {
            pub fn try_recv(&mut self) -> Result<T, error::TryRecvError> {
                self.chan.q.borrow_mut().pop_front().ok_or(error::TryRecvError::Empty)
            }
            pub fn len(&self) -> usize {
                self.chan.q.borrow().len()
            }
            pub fn is_empty(&self) -> bool {
                self.chan.q.borrow().is_empty()
            }
        }
    }
}
