//! Verification model of the `ahash` containers for engine K (Kani).
//!
//! An association list with unique keys.  Observable map/set semantics are those of a hash
//! map; iteration order is insertion order (with `swap_remove` on removal) whereas the real
//! order is arbitrary — obligations must not depend on iteration order.
//! Keys only need `Eq` (the real crate needs `Hash + Eq`; `Hash` is not used here so that no
//! hasher — and no `getrandom` — is reachable).

use std::borrow::Borrow;

#[derive(Clone, Debug, Default, Copy)]
pub struct RandomState;
impl RandomState {
    pub fn new() -> Self {
        RandomState
    }
}

#[derive(Clone)]
pub struct AHashMap<K, V> {
    items: Vec<(K, V)>,
}
pub type HashMap<K, V> = AHashMap<K, V>;

impl<K, V> Default for AHashMap<K, V> {
    fn default() -> Self {
        AHashMap { items: Vec::new() }
    }
}
impl<K: std::fmt::Debug, V: std::fmt::Debug> std::fmt::Debug for AHashMap<K, V> {
    fn fmt(&self, f: &mut std::fmt::Formatter<'_>) -> std::fmt::Result {
        f.debug_map().entries(self.items.iter().map(|(k, v)| (k, v))).finish()
    }
}

impl<K, V> AHashMap<K, V> {
    pub fn new() -> Self {
        Self::default()
    }
    pub fn with_capacity(_n: usize) -> Self {
        Self::default()
    }
    pub fn len(&self) -> usize {
        self.items.len()
    }
    pub fn is_empty(&self) -> bool {
        self.items.is_empty()
    }
    pub fn clear(&mut self) {
        self.items.clear()
    }
    pub fn reserve(&mut self, _n: usize) {}
    pub fn shrink_to_fit(&mut self) {}
    pub fn capacity(&self) -> usize {
        self.items.len()
    }
    pub fn iter(&self) -> Iter<'_, K, V> {
        Iter { inner: self.items.iter() }
    }
    pub fn iter_mut(&mut self) -> IterMut<'_, K, V> {
        IterMut { inner: self.items.iter_mut() }
    }
    pub fn keys(&self) -> Keys<'_, K, V> {
        Keys { inner: self.items.iter() }
    }
    pub fn values(&self) -> Values<'_, K, V> {
        Values { inner: self.items.iter() }
    }
    pub fn values_mut(&mut self) -> ValuesMut<'_, K, V> {
        ValuesMut { inner: self.items.iter_mut() }
    }
    pub fn into_keys(self) -> impl Iterator<Item = K> {
        self.items.into_iter().map(|(k, _)| k)
    }
    pub fn into_values(self) -> impl Iterator<Item = V> {
        self.items.into_iter().map(|(_, v)| v)
    }
    pub fn drain(&mut self) -> std::vec::Drain<'_, (K, V)> {
        self.items.drain(..)
    }
    pub fn retain<F: FnMut(&K, &mut V) -> bool>(&mut self, mut f: F) {
        self.items.retain_mut(|(k, v)| f(k, v));
    }
}

impl<K: Eq, V> AHashMap<K, V> {
    fn pos<Q: ?Sized + Eq>(&self, k: &Q) -> Option<usize>
    where
        K: Borrow<Q>,
    {
        let mut i = 0;
        while i < self.items.len() {
            if self.items[i].0.borrow() == k {
                return Some(i);
            }
            i += 1;
        }
        None
    }
    pub fn get<Q: ?Sized + Eq>(&self, k: &Q) -> Option<&V>
    where
        K: Borrow<Q>,
    {
        match self.pos(k) {
            Some(i) => Some(&self.items[i].1),
            None => None,
        }
    }
    pub fn get_key_value<Q: ?Sized + Eq>(&self, k: &Q) -> Option<(&K, &V)>
    where
        K: Borrow<Q>,
    {
        match self.pos(k) {
            Some(i) => Some((&self.items[i].0, &self.items[i].1)),
            None => None,
        }
    }
    pub fn get_mut<Q: ?Sized + Eq>(&mut self, k: &Q) -> Option<&mut V>
    where
        K: Borrow<Q>,
    {
        match self.pos(k) {
            Some(i) => Some(&mut self.items[i].1),
            None => None,
        }
    }
    pub fn contains_key<Q: ?Sized + Eq>(&self, k: &Q) -> bool
    where
        K: Borrow<Q>,
    {
        self.pos(k).is_some()
    }
    pub fn insert(&mut self, k: K, v: V) -> Option<V> {
        match self.pos(&k) {
            Some(i) => Some(std::mem::replace(&mut self.items[i].1, v)),
            None => {
                self.items.push((k, v));
                None
            }
        }
    }
    pub fn remove<Q: ?Sized + Eq>(&mut self, k: &Q) -> Option<V>
    where
        K: Borrow<Q>,
    {
        match self.pos(k) {
            Some(i) => Some(self.items.swap_remove(i).1),
            None => None,
        }
    }
    pub fn remove_entry<Q: ?Sized + Eq>(&mut self, k: &Q) -> Option<(K, V)>
    where
        K: Borrow<Q>,
    {
        match self.pos(k) {
            Some(i) => Some(self.items.swap_remove(i)),
            None => None,
        }
    }
    pub fn entry(&mut self, k: K) -> Entry<'_, K, V> {
        match self.pos(&k) {
            Some(i) => Entry::Occupied(OccupiedEntry { map: self, idx: i }),
            None => Entry::Vacant(VacantEntry { map: self, key: k }),
        }
    }
}

pub enum Entry<'a, K, V> {
    Occupied(OccupiedEntry<'a, K, V>),
    Vacant(VacantEntry<'a, K, V>),
}
pub struct OccupiedEntry<'a, K, V> {
    map: &'a mut AHashMap<K, V>,
    idx: usize,
}
pub struct VacantEntry<'a, K, V> {
    map: &'a mut AHashMap<K, V>,
    key: K,
}
impl<'a, K, V> OccupiedEntry<'a, K, V> {
    pub fn get(&self) -> &V {
        &self.map.items[self.idx].1
    }
    pub fn get_mut(&mut self) -> &mut V {
        &mut self.map.items[self.idx].1
    }
    pub fn into_mut(self) -> &'a mut V {
        &mut self.map.items[self.idx].1
    }
    pub fn key(&self) -> &K {
        &self.map.items[self.idx].0
    }
    pub fn insert(&mut self, v: V) -> V {
        std::mem::replace(&mut self.map.items[self.idx].1, v)
    }
    pub fn remove(self) -> V {
        self.map.items.swap_remove(self.idx).1
    }
}
impl<'a, K, V> VacantEntry<'a, K, V> {
    pub fn insert(self, v: V) -> &'a mut V {
        self.map.items.push((self.key, v));
        let n = self.map.items.len() - 1;
        &mut self.map.items[n].1
    }
    pub fn key(&self) -> &K {
        &self.key
    }
}
impl<'a, K, V> Entry<'a, K, V> {
    pub fn or_insert(self, default: V) -> &'a mut V {
        match self {
            Entry::Occupied(o) => o.into_mut(),
            Entry::Vacant(v) => v.insert(default),
        }
    }
    pub fn or_insert_with<F: FnOnce() -> V>(self, f: F) -> &'a mut V {
        match self {
            Entry::Occupied(o) => o.into_mut(),
            Entry::Vacant(v) => v.insert(f()),
        }
    }
    pub fn or_default(self) -> &'a mut V
    where
        V: Default,
    {
        self.or_insert_with(V::default)
    }
    pub fn and_modify<F: FnOnce(&mut V)>(mut self, f: F) -> Self {
        if let Entry::Occupied(o) = &mut self {
            f(o.get_mut());
        }
        self
    }
    pub fn key(&self) -> &K {
        match self {
            Entry::Occupied(o) => o.key(),
            Entry::Vacant(v) => v.key(),
        }
    }
}

pub struct Iter<'a, K, V> {
    inner: std::slice::Iter<'a, (K, V)>,
}
impl<'a, K, V> Iterator for Iter<'a, K, V> {
    type Item = (&'a K, &'a V);
    fn next(&mut self) -> Option<Self::Item> {
        self.inner.next().map(|(k, v)| (k, v))
    }
    fn size_hint(&self) -> (usize, Option<usize>) {
        self.inner.size_hint()
    }
}
impl<'a, K, V> ExactSizeIterator for Iter<'a, K, V> {}
impl<'a, K, V> Clone for Iter<'a, K, V> {
    fn clone(&self) -> Self {
        Iter { inner: self.inner.clone() }
    }
}
pub struct IterMut<'a, K, V> {
    inner: std::slice::IterMut<'a, (K, V)>,
}
impl<'a, K, V> Iterator for IterMut<'a, K, V> {
    type Item = (&'a K, &'a mut V);
    fn next(&mut self) -> Option<Self::Item> {
        self.inner.next().map(|(k, v)| (&*k, v))
    }
}
pub struct Keys<'a, K, V> {
    inner: std::slice::Iter<'a, (K, V)>,
}
impl<'a, K, V> Iterator for Keys<'a, K, V> {
    type Item = &'a K;
    fn next(&mut self) -> Option<Self::Item> {
        self.inner.next().map(|(k, _)| k)
    }
    fn size_hint(&self) -> (usize, Option<usize>) {
        self.inner.size_hint()
    }
}
impl<'a, K, V> ExactSizeIterator for Keys<'a, K, V> {}
impl<'a, K, V> Clone for Keys<'a, K, V> {
    fn clone(&self) -> Self {
        Keys { inner: self.inner.clone() }
    }
}
pub struct Values<'a, K, V> {
    inner: std::slice::Iter<'a, (K, V)>,
}
impl<'a, K, V> Iterator for Values<'a, K, V> {
    type Item = &'a V;
    fn next(&mut self) -> Option<Self::Item> {
        self.inner.next().map(|(_, v)| v)
    }
    fn size_hint(&self) -> (usize, Option<usize>) {
        self.inner.size_hint()
    }
}
impl<'a, K, V> ExactSizeIterator for Values<'a, K, V> {}
impl<'a, K, V> Clone for Values<'a, K, V> {
    fn clone(&self) -> Self {
        Values { inner: self.inner.clone() }
    }
}
pub struct ValuesMut<'a, K, V> {
    inner: std::slice::IterMut<'a, (K, V)>,
}
impl<'a, K, V> Iterator for ValuesMut<'a, K, V> {
    type Item = &'a mut V;
    fn next(&mut self) -> Option<Self::Item> {
        self.inner.next().map(|(_, v)| v)
    }
}

impl<K, V> IntoIterator for AHashMap<K, V> {
    type Item = (K, V);
    type IntoIter = std::vec::IntoIter<(K, V)>;
    fn into_iter(self) -> Self::IntoIter {
        self.items.into_iter()
    }
}
impl<'a, K, V> IntoIterator for &'a AHashMap<K, V> {
    type Item = (&'a K, &'a V);
    type IntoIter = Iter<'a, K, V>;
    fn into_iter(self) -> Self::IntoIter {
        self.iter()
    }
}
impl<'a, K, V> IntoIterator for &'a mut AHashMap<K, V> {
    type Item = (&'a K, &'a mut V);
    type IntoIter = IterMut<'a, K, V>;
    fn into_iter(self) -> Self::IntoIter {
        self.iter_mut()
    }
}
impl<K: Eq, V> FromIterator<(K, V)> for AHashMap<K, V> {
    fn from_iter<I: IntoIterator<Item = (K, V)>>(iter: I) -> Self {
        let mut m = AHashMap::new();
        for (k, v) in iter {
            m.insert(k, v);
        }
        m
    }
}
impl<K: Eq, V> Extend<(K, V)> for AHashMap<K, V> {
    fn extend<I: IntoIterator<Item = (K, V)>>(&mut self, iter: I) {
        for (k, v) in iter {
            self.insert(k, v);
        }
    }
}
impl<K: Eq, Q: ?Sized + Eq, V> std::ops::Index<&Q> for AHashMap<K, V>
where
    K: Borrow<Q>,
{
    type Output = V;
    fn index(&self, k: &Q) -> &V {
        self.get(k).expect("no entry found for key")
    }
}
impl<K: Eq, V: PartialEq> PartialEq for AHashMap<K, V> {
    fn eq(&self, other: &Self) -> bool {
        if self.len() != other.len() {
            return false;
        }
        self.iter().all(|(k, v)| other.get(k).map_or(false, |w| v == w))
    }
}
impl<K: Eq, V: Eq> Eq for AHashMap<K, V> {}
impl<K: Eq, V, const N: usize> From<[(K, V); N]> for AHashMap<K, V> {
    fn from(arr: [(K, V); N]) -> Self {
        arr.into_iter().collect()
    }
}

// ---------------------------------------------------------------- set
#[derive(Clone)]
pub struct AHashSet<T> {
    items: Vec<T>,
}
pub type HashSet<T> = AHashSet<T>;
impl<T> Default for AHashSet<T> {
    fn default() -> Self {
        AHashSet { items: Vec::new() }
    }
}
impl<T: std::fmt::Debug> std::fmt::Debug for AHashSet<T> {
    fn fmt(&self, f: &mut std::fmt::Formatter<'_>) -> std::fmt::Result {
        f.debug_set().entries(self.items.iter()).finish()
    }
}
impl<T> AHashSet<T> {
    pub fn new() -> Self {
        Self::default()
    }
    pub fn with_capacity(_n: usize) -> Self {
        Self::default()
    }
    pub fn len(&self) -> usize {
        self.items.len()
    }
    pub fn is_empty(&self) -> bool {
        self.items.is_empty()
    }
    pub fn clear(&mut self) {
        self.items.clear()
    }
    pub fn iter(&self) -> std::slice::Iter<'_, T> {
        self.items.iter()
    }
    pub fn drain(&mut self) -> std::vec::Drain<'_, T> {
        self.items.drain(..)
    }
    pub fn retain<F: FnMut(&T) -> bool>(&mut self, f: F) {
        self.items.retain(f)
    }
    pub fn reserve(&mut self, _n: usize) {}
    pub fn shrink_to_fit(&mut self) {}
}
impl<T: Eq> AHashSet<T> {
    fn pos<Q: ?Sized + Eq>(&self, k: &Q) -> Option<usize>
    where
        T: Borrow<Q>,
    {
        let mut i = 0;
        while i < self.items.len() {
            if self.items[i].borrow() == k {
                return Some(i);
            }
            i += 1;
        }
        None
    }
    pub fn contains<Q: ?Sized + Eq>(&self, k: &Q) -> bool
    where
        T: Borrow<Q>,
    {
        self.pos(k).is_some()
    }
    pub fn get<Q: ?Sized + Eq>(&self, k: &Q) -> Option<&T>
    where
        T: Borrow<Q>,
    {
        match self.pos(k) {
            Some(i) => Some(&self.items[i]),
            None => None,
        }
    }
    pub fn insert(&mut self, t: T) -> bool {
        if self.pos(&t).is_some() {
            false
        } else {
            self.items.push(t);
            true
        }
    }
    pub fn remove<Q: ?Sized + Eq>(&mut self, k: &Q) -> bool
    where
        T: Borrow<Q>,
    {
        match self.pos(k) {
            Some(i) => {
                self.items.swap_remove(i);
                true
            }
            None => false,
        }
    }
    pub fn take<Q: ?Sized + Eq>(&mut self, k: &Q) -> Option<T>
    where
        T: Borrow<Q>,
    {
        match self.pos(k) {
            Some(i) => Some(self.items.swap_remove(i)),
            None => None,
        }
    }
}
impl<T> IntoIterator for AHashSet<T> {
    type Item = T;
    type IntoIter = std::vec::IntoIter<T>;
    fn into_iter(self) -> Self::IntoIter {
        self.items.into_iter()
    }
}
impl<'a, T> IntoIterator for &'a AHashSet<T> {
    type Item = &'a T;
    type IntoIter = std::slice::Iter<'a, T>;
    fn into_iter(self) -> Self::IntoIter {
        self.items.iter()
    }
}
impl<T: Eq> FromIterator<T> for AHashSet<T> {
    fn from_iter<I: IntoIterator<Item = T>>(iter: I) -> Self {
        let mut s = AHashSet::new();
        for t in iter {
            s.insert(t);
        }
        s
    }
}
impl<T: Eq> Extend<T> for AHashSet<T> {
    fn extend<I: IntoIterator<Item = T>>(&mut self, iter: I) {
        for t in iter {
            self.insert(t);
        }
    }
}
impl<T: Eq> PartialEq for AHashSet<T> {
    fn eq(&self, other: &Self) -> bool {
        self.len() == other.len() && self.iter().all(|t| other.contains(t))
    }
}
impl<T: Eq> Eq for AHashSet<T> {}
