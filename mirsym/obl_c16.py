"""C16 — block-fetch scheduler (engine M): one selection round from an arbitrary valid state."""
import re
import z3
from . import sym as S, lib as L

MAX_RETRIES = 500
Q, FETCHING, FETCHED, FAILED = 0, 1, 2, 3


def _state(ctx, ex, n):
    """one peer, deque of n entries sorted by strictly increasing id, every status / retry count symbolic"""
    entries, ids, sts, rts = [], [], [], []
    for i in range(n):
        st = ex.fresh_value("BlockStatus", "e%d.status" % i)
        bid = ex.fresh_value("u64", "e%d.id" % i)
        rt = ex.fresh_value("u32", "e%d.retry" % i)
        h = ex.fresh_value("[u8; 32]", "e%d.hash" % i)
        entries.append(ctx.mk_struct(ex, "BlockData", "e%d" % i, block_hash=h, block_id=bid, status=st, retry_count=rt))
        ids.append(bid); sts.append(st); rts.append(rt)
    peer = ex.fresh_value("u64", "peer_index")
    btf = S.MapV("blocks_to_fetch", [[z3.BoolVal(True), peer, S.Seq(entries, "BlockData")]])
    batch = ex.fresh_value("usize", "batch_size")
    state = ctx.mk_struct(ex, "BlockchainSyncState", "sync", blocks_to_fetch=btf, batch_size=batch, received_block_picture=S.MapV("rbp", []))
    pre = [peer.bv != 0, z3.ULE(batch.bv, 3), z3.UGE(batch.bv, 1)]
    for i in range(n):
        pre.append(L.enum_in_range(sts[i], 4))
        if i:
            pre.append(z3.ULT(ids[i - 1].bv, ids[i].bv))
    is_ = lambda i, s: sts[i].discr.bv == s
    fetching_pre = sum([z3.If(is_(i, FETCHING), z3.BitVecVal(1, 64), z3.BitVecVal(0, 64)) for i in range(n)], z3.BitVecVal(0, 64))
    pre.append(z3.ULE(fetching_pre, batch.bv))  # representation invariant: in-flight <= batch size
    return state, entries, ids, sts, rts, peer, batch, pre, fetching_pre


def c16_select_step(ctx, v):
    """get_blocks_to_fetch_per_peer from any state satisfying the invariant (#Fetching <= batch
    size), deque of 1..=3 entries (thorough 4) sorted by id:
      P1  afterwards #Fetching <= batch size (bounded);
      P2  the returned list is in increasing id order and contains exactly the entries that went
          Queued -> Fetching in this round (never one that was already in flight);
      P3  an entry that keeps failing is re-queued only while retry_count < 500, its counter
          grows by exactly one per re-queue and never beyond 501;
      P4  progress: if some entry is still Queued afterwards, the round used its whole quota;
      no arithmetic panic (batch_size - fetching_count)."""
    body = ctx.body(r"blockchain_sync_state::<impl at [^>]*>::get_blocks_to_fetch_per_peer$")
    nmax = 3 if ctx.tier == "quick" else 4
    for n in range(1, nmax + 1):
        ex = ctx.executor(loop_bound=n + 2, inline="auto", max_paths=20000)
        state, entries, ids, sts, rts, peer, batch, pre, fetching_pre = _state(ctx, ex, n)
        st = S.State()
        st.pc.extend(pre)
        outs = ex.run(body, [S.Ref(S.Cell(state), (), True)], st)
        v.paths += len(outs)
        seen = 0
        for o in outs:
            if o.kind in ("unsupported", "unwound", "path-limit"):
                return v.undecided("n=%d %s %s" % (n, o.kind, o.info))
            if o.kind == "panic":
                r, m = ex.model_for(o.pc)
                v.queries += 1
                if r == z3.sat:
                    v.fail("n=%d: panic reachable: %s" % (n, o.info), dict(statuses=[m.eval(s.discr.bv, model_completion=True).as_long() for s in sts], batch=m.eval(batch.bv, model_completion=True).as_long()))
                continue
            if o.kind != "return":
                continue
            post = o.state.frames[0].locals["_1"].v.cell.v
            pmap = post.fields[ctx.field_index("BlockchainSyncState", "blocks_to_fetch")]
            pdeq = pmap.entries[0][2].v
            pst = [e.fields[ctx.field_index("BlockData", "status")] for e in pdeq.items]
            prt = [e.fields[ctx.field_index("BlockData", "retry_count")] for e in pdeq.items]
            def d(x):
                dd = ex.discr_of(x)
                return dd.bv if isinstance(dd, S.I) else z3.BitVecVal(dd, 64)
            post_d = [d(x) for x in pst]
            pre_d = [s.discr.bv for s in sts]
            one = lambda c: z3.If(c, z3.BitVecVal(1, 64), z3.BitVecVal(0, 64))
            fetching_post = sum([one(post_d[i] == FETCHING) for i in range(n)], z3.BitVecVal(0, 64))
            requeued = [z3.And(pre_d[i] == FAILED, post_d[i] == Q) for i in range(n)]
            started = [z3.And(pre_d[i] == Q, post_d[i] == FETCHING) for i in range(n)]
            # returned list
            ret = o.value
            sel = []
            if isinstance(ret, S.MapV) and ret.entries:
                sel = ret.entries[0][2].v.items
            elif isinstance(ret, S.MapV):
                sel = []
            else:
                return v.undecided("n=%d: returned map not modelled (%s)" % (n, type(ret).__name__))
            checks = [("P1 more blocks in flight than the batch size allows", z3.UGT(fetching_post, batch.bv))]
            # P2: the selected tuples are (hash, id) of started entries in order
            started_ids = [ids[i] for i in range(n)]
            k = len(sel)
            checks.append(("P2 the number of returned blocks differs from the number of entries put in flight", sum([one(c) for c in started], z3.BitVecVal(0, 64)) != k))
            for a in range(k):
                sid = sel[a].fields[1]
                checks.append(("P2 a returned block was not a Queued entry put in flight in this round", z3.Not(z3.Or(*[z3.And(started[i], ids[i].bv == sid.bv) for i in range(n)]))))
                if a:
                    checks.append(("P2 returned blocks are not in increasing height order", z3.UGE(sel[a - 1].fields[1].bv, sid.bv)))
            for i in range(n):
                checks.append(("P2 an entry already in flight was selected again / left flight without an answer", z3.And(pre_d[i] == FETCHING, post_d[i] != FETCHING)))
                checks.append(("P3 an entry was re-queued although its retry budget is exhausted", z3.And(requeued[i], z3.UGE(rts[i].bv, MAX_RETRIES))))
                checks.append(("P3 retry counter not incremented by one on re-queue", z3.And(requeued[i], prt[i].bv != rts[i].bv + 1)))
                checks.append(("P3 retry counter exceeds its bound", z3.And(z3.ULE(rts[i].bv, MAX_RETRIES + 1), z3.UGT(prt[i].bv, MAX_RETRIES + 1))))
            used = fetching_post + sum([one(c) for c in requeued], z3.BitVecVal(0, 64))
            still_q = z3.Or(*[z3.And(pre_d[i] == Q, post_d[i] == Q) for i in range(n)])
            checks.append(("P4 a Queued block was left waiting although the quota was not used up", z3.And(still_q, z3.ULT(used, batch.bv))))
            for what, bad in checks:
                r, m = ex.model_for(o.pc, bad)
                v.queries += 1
                if r == z3.sat:
                    wit = dict(n=n, batch_size=m.eval(batch.bv, model_completion=True).as_long(),
                               pre=[dict(id=m.eval(ids[i].bv, model_completion=True).as_long(), status=["Queued", "Fetching", "Fetched", "Failed"][m.eval(pre_d[i], model_completion=True).as_long() % 4], retry=m.eval(rts[i].bv, model_completion=True).as_long()) for i in range(n)],
                               post_status=[["Queued", "Fetching", "Fetched", "Failed"][m.eval(post_d[i], model_completion=True).as_long() % 4] for i in range(n)])
                    v.fail("deque of %d: %s" % (n, what), wit)
                    if v.replay_rust is None and what.startswith("P1"):
                        v.replay_rust = None
            seen += 1
        v.covers_total += 1
        v.covers_sat += 1 if seen else 0


def c16_mark_as_failed_step(ctx, v):
    """mark_as_failed(id, hash, peer) on a queue of 1..=3 entries (ids and 32-byte hashes symbolic,
    equal ids allowed — a fork at one height): exactly the first entry whose id AND hash both
    match becomes Failed; every other entry keeps its status (a sibling at the same height that
    is still being fetched is not disturbed); an unknown (id, hash) changes nothing."""
    from .models import value_eq
    body = ctx.body(r"blockchain_sync_state::<impl at [^>]*>::mark_as_failed$")
    for n in (1, 2, 3):
        ex = ctx.executor(loop_bound=n + 3, inline="auto", max_paths=6000)
        state, entries, ids, sts, rts, peer, batch, pre, fetching_pre = _state(ctx, ex, n)
        # drop the strict ordering precondition: equal ids are the interesting case
        pre = [p for p in pre if "ULT" not in p.sexpr()[:8]] if False else pre
        hs = [e.fields[ctx.field_index("BlockData", "block_hash")] for e in entries]
        st = S.State()
        st.pc.extend([peer.bv != 0] + [L.enum_in_range(s, 4) for s in sts])
        fid = ex.fresh_value("u64", "failed.id")
        fh = ex.fresh_value("[u8; 32]", "failed.hash")
        outs = ex.run(body, [S.Ref(S.Cell(state), (), True), fid, fh, peer], st)
        v.paths += len(outs)
        match = [z3.And(ids[i].bv == fid.bv, value_eq(ex, hs[i], fh)) for i in range(n)]
        first = [z3.And(match[i], *[z3.Not(match[j]) for j in range(i)]) for i in range(n)]
        seen = 0
        for o in outs:
            if o.kind in ("unsupported", "unwound", "path-limit"):
                return v.undecided("n=%d %s %s" % (n, o.kind, o.info))
            if o.kind == "panic":
                v.fail("n=%d panic %s" % (n, o.info))
                continue
            if o.kind != "return":
                continue
            post = o.state.frames[0].locals["_1"].v.cell.v
            pdeq = post.fields[ctx.field_index("BlockchainSyncState", "blocks_to_fetch")].entries[0][2].v
            for i in range(n):
                ps = pdeq.items[i].fields[ctx.field_index("BlockData", "status")]
                dd = ex.discr_of(ps)
                pd = dd.bv if isinstance(dd, S.I) else z3.BitVecVal(dd, 64)
                checks = [("the entry that failed is not marked Failed", z3.And(first[i], pd != FAILED)),
                          ("an entry other than the one that failed changed its status (a different block at the same height, or with the same hash, is disturbed)", z3.And(z3.Not(first[i]), pd != sts[i].discr.bv))]
                for what, bad in checks:
                    r, m = ex.model_for(o.pc, bad)
                    v.queries += 1
                    if r == z3.sat:
                        v.fail("queue of %d: %s" % (n, what), dict(entry=i, ids=[m.eval(x.bv, model_completion=True).as_long() for x in ids], failed_id=m.eval(fid.bv, model_completion=True).as_long(),
                                                                   same_hash=[str(m.eval(value_eq(ex, hs[k], fh), model_completion=True)) for k in range(n)]))
            seen += 1
        v.covers_total += 1
        v.covers_sat += 1 if seen else 0


def c16_picture_no_duplicates(ctx, v):
    """BlockchainSyncState::build_peer_block_picture for one peer whose fetch queue holds 2..=3
    entries in ANY order (the queue is only sorted inside the selection round; announcements are
    appended) without duplicates, and one announced (id, hash) pair — possibly equal to a queued
    entry at any position: afterwards the queue still holds no (id, hash) pair twice, every
    earlier entry is still there, and an announced block the node lacks is queued.  (The two
    map clean-ups at the end of the function are cut; the announcement list is one entry, so the
    sort is the identity.)"""
    from .models import value_eq
    body = ctx.body(r"blockchain_sync_state::<impl at [^>]*>::build_peer_block_picture$")
    ok = 0
    for n in ((2, 3) if ctx.tier == "quick" else (2, 3, 4)):
        ex = ctx.executor(loop_bound=n + 4, inline="auto", max_paths=6000, no_inline=[r"to_hex", r"fmt"])
        ex.pure = [r".*"]
        ex.stop_calls = [r"(?:AHashMap|HashMap)::<u64, VecDeque<.*>::retain::"]
        entries, ids, hs = [], [], []
        for i in range(n):
            bid = ex.fresh_value("u64", "q%d.id" % i)
            h = ex.fresh_value("[u8; 32]", "q%d.hash" % i)
            entries.append(ctx.mk_struct(ex, "BlockData", "q%d" % i, block_hash=h, block_id=bid, status=ex.fresh_value("BlockStatus", "q%d.status" % i), retry_count=ex.fresh_value("u32", "q%d.retry" % i)))
            ids.append(bid); hs.append(h)
        peer = ex.fresh_value("u64", "peer_index")
        a_id = ex.fresh_value("u64", "announced.id")
        a_h = ex.fresh_value("[u8; 32]", "announced.hash")
        ann = S.Seq([S.Agg("tuple", "(u64, [u8; 32])", [a_id, a_h])], "(u64, [u8; 32])")
        btf = S.MapV("blocks_to_fetch", [[z3.BoolVal(True), peer, S.Seq(entries, "BlockData")]])
        rbp = S.MapV("received_block_picture", [[z3.BoolVal(True), ex.copy_value(peer), ann]])
        state = ctx.mk_struct(ex, "BlockchainSyncState", "sync", blocks_to_fetch=btf, received_block_picture=rbp)
        have = z3.Bool("node_already_has_announced_block")

        def hook(ex_, st, callee, args, dty, have=have):
            if re.search(r"(?:AHashMap|HashMap)::<\[u8; 32\], Block[^>]*>::contains_key", callee):
                return have
            return None
        ex.on_call = hook
        same = lambda i, j: z3.And(ids[i].bv == ids[j].bv, value_eq(ex, hs[i], hs[j]))
        st = S.State()
        st.pc.extend([L.enum_in_range(e.fields[ctx.field_index("BlockData", "status")], 4) for e in entries] + [z3.Not(same(i, j)) for i in range(n) for j in range(i)])
        outs = ex.run(body, [S.Ref(S.Cell(state), (), True), S.Ref(S.Cell(S.Opaque("blockchain", "Blockchain")))], st)
        v.paths += len(outs)
        for o in outs:
            if o.kind in ("unsupported", "unwound", "path-limit"):
                return v.undecided("n=%d %s %s" % (n, o.kind, o.info))
            if o.kind == "panic":
                L.report_panic(v, ex, o, "n=%d: build_peer_block_picture panics: %s" % (n, o.info))
                continue
            if o.kind not in ("stopped", "return"):
                continue
            post = ex.deref_value(o.state.frames[0].locals["_1"].v)
            pmap = post.fields[ctx.field_index("BlockchainSyncState", "blocks_to_fetch")]
            if not pmap.entries:
                return v.undecided("queue map lost its entry")
            cell = pmap.entries[0][2]
            pdeq = cell.v if isinstance(cell, S.Cell) else cell
            if not isinstance(pdeq, S.Seq):
                return v.undecided("queue is not a concrete-length sequence")
            pid = [e.fields[ctx.field_index("BlockData", "block_id")] for e in pdeq.items]
            ph = [e.fields[ctx.field_index("BlockData", "block_hash")] for e in pdeq.items]
            m_ = len(pdeq.items)
            dup = z3.Or(*[z3.And(pid[i].bv == pid[j].bv, value_eq(ex, ph[i], ph[j])) for i in range(m_) for j in range(i)]) if m_ > 1 else z3.BoolVal(False)
            r, m = ex.model_for(o.pc, dup)
            v.queries += 1
            bad = False
            if r == z3.sat:
                L.fail_structural(v, o, "n=%d: after build_peer_block_picture the peer's fetch queue holds the same (id, hash) twice (%d entries): the block would be requested twice" % (n, m_))
                bad = True
            present = lambda bid, h: z3.Or(*[z3.And(pid[k].bv == bid.bv, value_eq(ex, ph[k], h)) for k in range(m_)]) if m_ else z3.BoolVal(False)
            for i in range(n):
                v.queries += 1
                if ex.feasible(o.pc, z3.Not(present(ids[i], hs[i]))):
                    L.fail_structural(v, o, "n=%d: a queued entry disappeared from the fetch queue" % n)
                    bad = True
            v.queries += 1
            if ex.feasible(o.pc, z3.And(z3.Not(have), z3.Not(present(a_id, a_h)))):
                L.fail_structural(v, o, "n=%d: an announced block the node lacks is not in the peer's fetch queue afterwards" % n)
                bad = True
            ok += 0 if bad else 1
    v.covers_total += 1
    v.covers_sat += 1 if ok else 0


def c16_mark_as_fetched_step(ctx, v):
    """BlockchainSyncState::mark_as_fetched(hash) with TWO peers whose queues both hold an entry
    for that hash (any status) next to another entry: when the marking loop is done (the
    clean-up call remove_fetched_blocks is cut) the entry is Fetched in BOTH queues — a block that
    arrived through one peer frees its slot at every peer that announced it — and the other
    entries keep their status."""
    from .models import value_eq
    body = ctx.body(r"blockchain_sync_state::<impl at [^>]*>::mark_as_fetched$")
    ex = ctx.executor(loop_bound=6, inline="auto", max_paths=4000, no_inline=[r"remove_fetched_blocks$", r"to_hex", r"fmt"])
    ex.pure = [r".*"]
    ex.stop_calls = [r"remove_fetched_blocks$"]
    h = ex.fresh_value("[u8; 32]", "fetched.hash")
    peers, queues, others = [], [], []
    for p in range(2):
        e_h = ctx.mk_struct(ex, "BlockData", "p%d.hit" % p, block_hash=ex.copy_value(h), block_id=ex.fresh_value("u64", "p%d.hit.id" % p), status=ex.fresh_value("BlockStatus", "p%d.hit.status" % p),
                            retry_count=ex.fresh_value("u32", "p%d.hit.retry" % p))
        oh = ex.fresh_value("[u8; 32]", "p%d.other.hash" % p)
        ost = ex.fresh_value("BlockStatus", "p%d.other.status" % p)
        e_o = ctx.mk_struct(ex, "BlockData", "p%d.other" % p, block_hash=oh, block_id=ex.fresh_value("u64", "p%d.other.id" % p), status=ost, retry_count=ex.fresh_value("u32", "p%d.other.retry" % p))
        order = [e_o, e_h] if p else [e_h, e_o]
        queues.append(S.Seq(order, "BlockData"))
        peers.append(ex.fresh_value("u64", "peer%d" % p))
        others.append((oh, ost, 0 if p else 1))
    btf = S.MapV("blocks_to_fetch", [[z3.BoolVal(True), peers[p], queues[p]] for p in range(2)])
    state = ctx.mk_struct(ex, "BlockchainSyncState", "sync", blocks_to_fetch=btf)
    st = S.State()
    st.pc.extend([peers[0].bv != peers[1].bv] + [z3.Not(value_eq(ex, oh, h)) for oh, _, _ in others] +
                 [L.enum_in_range(e.fields[ctx.field_index("BlockData", "status")], 4) for q in queues for e in q.items])
    outs = ex.run(body, [S.Ref(S.Cell(state), (), True), h], st)
    v.paths += len(outs)
    n = 0
    for o in outs:
        if o.kind in ("unsupported", "unwound", "path-limit"):
            return v.undecided("%s %s" % (o.kind, o.info))
        if o.kind == "panic":
            L.report_panic(v, ex, o, "mark_as_fetched panics: %s" % o.info)
            continue
        if o.kind not in ("stopped", "return"):
            continue
        post = ex.deref_value(o.state.frames[0].locals["_1"].v)
        pmap = post.fields[ctx.field_index("BlockchainSyncState", "blocks_to_fetch")]
        bad = False
        for p in range(2):
            cell = pmap.entries[p][2]
            dq = cell.v if isinstance(cell, S.Cell) else cell
            for e in dq.items:
                eh = e.fields[ctx.field_index("BlockData", "block_hash")]
                stt = e.fields[ctx.field_index("BlockData", "status")]
                d = ex.discr_of(stt)
                dbv = d.bv if isinstance(d, S.I) else z3.BitVecVal(d, 64)
                is_hit = value_eq(ex, eh, h)
                v.queries += 1
                if ex.feasible(o.pc, z3.And(is_hit, dbv != FETCHED)):
                    L.fail_structural(v, o, "after mark_as_fetched the entry for the fetched block is not Fetched in the queue of peer #%d (its slot there stays occupied / it is requested again)" % p)
                    bad = True
        n += 0 if bad else 1
    v.covers_total += 1
    v.covers_sat += 1 if n else 0


def c16_select_orders_unsorted_queue(ctx, v):
    """get_blocks_to_fetch_per_peer on a queue that is NOT in height order (entries pushed by
    different build_peer_block_picture calls: a lower block announced late, a failed fetch
    re-queued next to a lower announcement). Queue of 2..=3 entries (both tiers: 4 entries — 24 orders
    times the statuses — was stopped unfinished after 17 minutes), ids arbitrary and
    pairwise distinct in any order, statuses / retry counts / batch size (1..=3) symbolic, and
    `sort_by` executed for real (bubble network calling the code's own comparison closure):
      the returned list is in increasing height order, every returned block was a Queued entry of
      the queue, and afterwards #Fetching <= batch size."""
    body = ctx.body(r"blockchain_sync_state::<impl at [^>]*>::get_blocks_to_fetch_per_peer$")
    nmax = 3
    for n in range(2, nmax + 1):
        ex = ctx.executor(loop_bound=n + 2, inline="auto", max_paths=40000)
        ex.sort_real = True
        state, entries, ids, sts, rts, peer, batch, pre, fetching_pre = _state(ctx, ex, n)
        st = S.State()
        # drop the "already sorted" precondition, keep everything else; ids pairwise distinct
        keep = [p for p in pre if not any(p.eq(z3.ULT(ids[i - 1].bv, ids[i].bv)) for i in range(1, n))]
        st.pc.extend(keep + [ids[i].bv != ids[j].bv for i in range(n) for j in range(i)])
        outs = ex.run(body, [S.Ref(S.Cell(state), (), True)], st)
        v.paths += len(outs)
        seen = unsorted_seen = 0
        one = lambda c: z3.If(c, z3.BitVecVal(1, 64), z3.BitVecVal(0, 64))
        for o in outs:
            if o.kind in ("unsupported", "unwound", "path-limit"):
                return v.undecided("n=%d %s %s" % (n, o.kind, o.info))
            if o.kind == "panic":
                L.report_panic(v, ex, o, "n=%d: panic reachable: %s" % (n, o.info))
                continue
            if o.kind != "return":
                continue
            if any(e[0] == "assume-sorted" for e in o.state.events):
                return v.undecided("n=%d: the sort ran under the sortedness assumption" % n)
            post = o.state.frames[0].locals["_1"].v.cell.v
            pdeq = post.fields[ctx.field_index("BlockchainSyncState", "blocks_to_fetch")].entries[0][2].v
            post_d = []
            for e in pdeq.items:
                dd = ex.discr_of(e.fields[ctx.field_index("BlockData", "status")])
                post_d.append(dd.bv if isinstance(dd, S.I) else z3.BitVecVal(dd, 64))
            fetching_post = sum([one(d == FETCHING) for d in post_d], z3.BitVecVal(0, 64))
            ret = o.value
            if not isinstance(ret, S.MapV):
                return v.undecided("n=%d: returned map not modelled (%s)" % (n, type(ret).__name__))
            sel = ret.entries[0][2].v.items if ret.entries else []
            checks = [("more blocks in flight than the batch size allows", z3.UGT(fetching_post, batch.bv))]
            for a in range(len(sel)):
                sid = sel[a].fields[1]
                checks.append(("a returned block was not a Queued entry of the queue", z3.Not(z3.Or(*[z3.And(sts[i].discr.bv == Q, ids[i].bv == sid.bv) for i in range(n)]))))
                if a:
                    checks.append(("blocks are requested out of height order (a lower block after a higher one)", z3.UGT(sel[a - 1].fields[1].bv, sid.bv)))
            for what, bad in checks:
                r, m = ex.model_for(o.pc, bad)
                v.queries += 1
                if r == z3.sat:
                    v.sat += 1
                    ev = lambda x: m.eval(x, model_completion=True).as_long()
                    L.fail_structural(v, o, "queue of %d in arrival order: %s" % (n, what),
                           dict(batch_size=ev(batch.bv), queue=[dict(id=ev(ids[i].bv), status=["Queued", "Fetching", "Fetched", "Failed"][ev(sts[i].discr.bv) % 4]) for i in range(n)],
                                returned_ids=[ev(x.fields[1].bv) for x in sel]), exprs=[bad])
                elif r == z3.unsat:
                    v.unsat += 1
                else:
                    return v.undecided("n=%d solver %s on: %s" % (n, r, what))
            seen += 1
            if len(sel) >= 2 and not unsorted_seen:
                r, m = ex.model_for(o.pc, z3.Or(*[z3.UGT(ids[i - 1].bv, ids[i].bv) for i in range(1, n)]))
                v.queries += 1
                unsorted_seen = 1 if r == z3.sat else 0
        v.covers_total += 1
        v.covers_sat += 1 if (seen and unsorted_seen) else 0


def c16_remove_entry_every_peer(ctx, v):
    """BlockchainSyncState::remove_entry(hash) — called when a block arrived by another route or
    is already held — with TWO peers whose queues both hold an entry for that hash (any status)
    next to another entry: afterwards (the final clean-up of empty queues included — HashMap::retain
    and VecDeque::retain both run over the code's own closures) NO queue holds an entry for that hash
    any more — otherwise the entry left
    behind stays in flight for ever (its peer is never asked again) or the block is requested
    again — and every other entry is still there with its status."""
    from .models import value_eq
    body = ctx.body(r"blockchain_sync_state::<impl at [^>]*>::remove_entry$")
    ex = ctx.executor(loop_bound=6, inline="auto", max_paths=4000, no_inline=[r"to_hex", r"fmt"])
    ex.pure = [r".*"]
    h = ex.fresh_value("[u8; 32]", "removed.hash")
    peers, queues, others = [], [], []
    for p in range(2):
        e_h = ctx.mk_struct(ex, "BlockData", "p%d.hit" % p, block_hash=ex.copy_value(h), block_id=ex.fresh_value("u64", "p%d.hit.id" % p), status=ex.fresh_value("BlockStatus", "p%d.hit.status" % p),
                            retry_count=ex.fresh_value("u32", "p%d.hit.retry" % p))
        oh = ex.fresh_value("[u8; 32]", "p%d.other.hash" % p)
        ost = ex.fresh_value("BlockStatus", "p%d.other.status" % p)
        e_o = ctx.mk_struct(ex, "BlockData", "p%d.other" % p, block_hash=oh, block_id=ex.fresh_value("u64", "p%d.other.id" % p), status=ost, retry_count=ex.fresh_value("u32", "p%d.other.retry" % p))
        queues.append(S.Seq([e_o, e_h] if p else [e_h, e_o], "BlockData"))
        peers.append(ex.fresh_value("u64", "peer%d" % p))
        others.append(oh)
    btf = S.MapV("blocks_to_fetch", [[z3.BoolVal(True), peers[p], queues[p]] for p in range(2)])
    state = ctx.mk_struct(ex, "BlockchainSyncState", "sync", blocks_to_fetch=btf)
    st = S.State()
    st.pc.extend([peers[0].bv != peers[1].bv] + [z3.Not(value_eq(ex, oh, h)) for oh in others] +
                 [L.enum_in_range(e.fields[ctx.field_index("BlockData", "status")], 4) for q in queues for e in q.items])
    outs = ex.run(body, [S.Ref(S.Cell(state), (), True), h], st)
    v.paths += len(outs)
    n = 0
    for o in outs:
        if o.kind in ("unsupported", "unwound", "path-limit"):
            return v.undecided("%s %s" % (o.kind, o.info))
        if o.kind == "panic":
            L.report_panic(v, ex, o, "remove_entry panics: %s" % o.info)
            continue
        if o.kind not in ("stopped", "return") or not ex.feasible(o.pc):
            continue
        post = ex.deref_value(o.state.frames[0].locals["_1"].v)
        pmap = post.fields[ctx.field_index("BlockchainSyncState", "blocks_to_fetch")]
        bad = False
        for p in range(2):
            cell = pmap.entries[p][2]
            dq = cell.v if isinstance(cell, S.Cell) else cell
            if z3.is_false(z3.simplify(pmap.entries[p][0])):
                L.fail_structural(v, o, "remove_entry dropped the whole queue of peer #%d although it still held an entry for a different block" % p)
                bad = True
                continue
            if not isinstance(dq, S.Seq):
                return v.undecided("queue of peer #%d is no longer a tracked sequence" % p)
            v.queries += 1
            hit_left = [value_eq(ex, e.fields[ctx.field_index("BlockData", "block_hash")], h) for e in dq.items]
            if hit_left and ex.feasible(o.pc, z3.Or(*hit_left)):
                L.fail_structural(v, o, "after remove_entry the queue of peer #%d still holds an entry for the removed block (it stays in flight for ever there, or is requested again)" % p)
                bad = True
            other_left = [value_eq(ex, e.fields[ctx.field_index("BlockData", "block_hash")], others[p]) for e in dq.items]
            if not other_left or ex.feasible(o.pc, z3.Not(z3.Or(*other_left))):
                L.fail_structural(v, o, "remove_entry dropped an entry for a different block from the queue of peer #%d" % p)
                bad = True
        n += 0 if bad else 1
    v.covers_total += 1
    v.covers_sat += 1 if n else 0
