"""Shared exploration of the prefix of Blockchain::add_block (engine M): from the call up to the
fork-choice comparison (the first call of calculate_old_chain_* / is_new_chain_the_longest_chain),
with the chain state an opaque value whose observers are explicit symbolic inputs."""
import re
import z3
from . import sym as S, lib as L
from .models import mk_some, mk_none

STOP = [r"calculate_old_chain_upto_length$", r"calculate_old_chain_for_add_block$", r"is_new_chain_the_longest_chain$"]
WRITES = r"BlockRing::add_block$|BlockRing::on_chain_reorganization$|BlockRing::delete_block$|(?:AHashMap|HashMap)::<\[u8; 32\], Block[^>]*>::(insert|remove)$"


def explore(ctx, loop_bound=3):
    ex = ctx.executor(loop_bound=loop_bound, inline="auto", max_paths=4000,
                      no_inline=[r"Block::generate$", r"BlockRing::", r"calculate_new_chain_for_add_block$", r"Blockchain::get_block$", r"Blockchain::get_mut_block$", r"fmt", r"to_hex",
                                 r"get_blockchain_configs$", r"get_consensus_config$"])
    ex.pure = [r".*"]
    # the disconnect loop of the parentless-block edge case is cut at its first write (the question asked is whether one is reachable)
    ex.stop_calls = list(STOP) + [r"BlockRing::on_chain_reorganization$"]
    tip_id = ex.fresh_value("u64", "tip.id")
    tip_hash = ex.fresh_value("[u8; 32]", "tip.hash")
    ring_empty = z3.Bool("blockring_is_empty")
    parent_known = z3.Bool("parent_is_stored")
    already = z3.Bool("block_already_stored")
    ancestor_found = z3.Bool("shared_ancestor_found")
    gen_ok = z3.Bool("block_generate_ok")
    loading_done = z3.Bool("initial_loading_completed")
    b_id = ex.fresh_value("u64", "block.id")
    b_hash = ex.fresh_value("[u8; 32]", "block.hash")
    b_prev = ex.fresh_value("[u8; 32]", "block.previous_block_hash")
    block = ctx.mk_struct(ex, "Block", "block", id=b_id, hash=b_hash, previous_block_hash=b_prev)
    gp = ex.fresh_value("u64", "genesis_period")
    chain = ctx.mk_struct(ex, "Blockchain", "chain", genesis_period=gp)

    def hook(ex_, st, callee, args, dty):
        if re.search(r"Blockchain::get_latest_block_id$|BlockRing::get_latest_block_id$", callee):
            return ex_.copy_value(tip_id)
        if re.search(r"Blockchain::get_latest_block_hash$|BlockRing::get_latest_block_hash$", callee):
            return ex_.copy_value(tip_hash)
        if re.search(r"BlockRing::is_empty$", callee):
            return ring_empty
        if re.search(r"Block::generate$", callee):
            res = S.EnumV("Result<(), Error>", None, S.I(z3.If(gen_ok, z3.BitVecVal(0, 64), z3.BitVecVal(1, 64)), True))
            res.payload["Err"] = S.Agg("variant", "Err", [S.Opaque("err", "Error")])
            res.payload["Ok"] = S.Agg("variant", "Ok", [S.Agg("tuple", "()", [])])
            return res
        if re.search(r"(?:AHashMap|HashMap)::<\[u8; 32\], Block[^>]*>::contains_key", callee):
            return already
        if re.search(r"Blockchain::get_block$", callee):
            return ("__fork__", [(parent_known, mk_some(dty, S.Ref(S.Cell(S.Opaque("parent", "Block"))))), (z3.Not(parent_known), mk_none(dty))])
        if re.search(r"calculate_new_chain_for_add_block$", callee):
            return S.Agg("tuple", "(bool, [u8; 32], Vec<[u8; 32]>)", [ancestor_found, ex_.fresh_value("[u8; 32]", "shared_block_hash"), S.Opaque("new_chain", "Vec<[u8; 32]>")])
        return None
    ex.on_call = hook
    st = S.State()
    st.pc.extend([z3.ULE(tip_id.bv, 1 << 40), z3.ULE(b_id.bv, 1 << 40), z3.ULE(gp.bv, 1 << 30)])
    body, co = L.coroutine(ctx, ex, r"blockchain::<impl at [^>]*>::add_block",
                           [S.Ref(S.Cell(chain), (), True), block, S.Ref(S.Cell(S.Opaque("storage", "Storage")), (), True), S.Ref(S.Cell(S.Opaque("mempool", "Mempool")), (), True),
                            S.Ref(S.Cell(S.Opaque("cfg", "dyn Configuration")))])
    outs = ex.run(body, [S.Ref(S.Cell(co), (), True), S.Opaque("cx", "Context")], st)
    return dict(ex=ex, outs=outs, tip_id=tip_id, tip_hash=tip_hash, b_id=b_id, b_hash=b_hash, b_prev=b_prev, ring_empty=ring_empty, parent_known=parent_known, already=already,
                ancestor_found=ancestor_found, gen_ok=gen_ok, gp=gp)


def writes(o):
    return [e for e in o.events if e[0] == "call" and re.search(WRITES, e[1])]
