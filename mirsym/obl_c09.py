"""C09 — wire formats round-trip (engine M)."""
import re
import z3
from . import sym as S, lib as L
from .run import model_values
from .models import value_eq


def _single_return(ex, outs, v, label):
    rets = [o for o in outs if o.kind == "return"]
    for o in outs:
        if o.kind in ("unsupported", "unwound", "path-limit"):
            v.undecided("%s: %s %s" % (label, o.kind, o.info))
            return None
        if o.kind == "panic":
            v.queries += 1
            v.fail("%s: panic reachable: %s" % (label, o.info), dict(path=L.trace_text(o, 10)))
    return rets


def c09_m_slip_roundtrip(ctx, v):
    """Slip: deserialize(serialize(x)) == x on every wire field, for every slip (all 10 types);
    size is exactly 59; re-encoding the decoded slip gives the same bytes."""
    ex = ctx.executor(loop_bound=3, inline="auto")
    ser = ctx.body(r"slip::<impl at [^>]*>::serialize_for_net$")
    de = ctx.body(r"slip::<impl at [^>]*>::deserialize_from_net$")
    slip = L.sym_slip(ctx, ex, "x")
    st = S.State()
    st.pc.append(L.enum_in_range(L.slip_field(ctx, slip, "slip_type"), L.SLIP_TYPES))
    outs = ex.run(ser, [S.Ref(S.Cell(slip))], st)
    rets = _single_return(ex, outs, v, "Slip::serialize_for_net")
    if rets is None:
        return
    v.paths += len(outs)
    for o in rets:
        wire = o.value
        r, m = ex.model_for(o.pc, wire.len.bv != 59)
        v.queries += 1
        if r == z3.sat:
            v.fail("serialized slip is not 59 bytes")
        st2 = S.State()
        st2.pc.extend(o.pc)
        outs2 = ex.run(de, [S.Ref(S.Cell(wire))], st2)
        v.paths += len(outs2)
        rets2 = _single_return(ex, outs2, v, "Slip::deserialize_from_net")
        if rets2 is None:
            return
        okseen = False
        for o2 in rets2:
            res = o2.value
            if res.variant == "Err":
                r, m = ex.model_for(o2.pc)
                v.queries += 1
                if r == z3.sat:
                    v.fail("a valid slip's own encoding is rejected by the decoder", model_values(m, dict(amount=L.slip_field(ctx, slip, "amount"))))
                continue
            y = res.payload["Ok"].fields[0]
            okseen = True
            for f in ("public_key", "amount", "block_id", "tx_ordinal", "slip_index", "slip_type"):
                a, b = L.slip_field(ctx, slip, f), ex.step_get(y, ("f", ctx.field_index("Slip", f), None))
                r, m = ex.model_for(o2.pc, z3.Not(value_eq(ex, a, b)))
                v.queries += 1
                if r == z3.sat:
                    v.fail("field %s differs after the round trip" % f, model_values(m, dict(amount=L.slip_field(ctx, slip, "amount"))))
        v.covers_total += 1
        v.covers_sat += 1 if okseen else 0


def c09_m_tx_counts_agree(ctx, v):
    """Transaction: every count the encoder accepts is accepted by the decoder.  The decoder is
    run on a buffer whose four count fields are symbolic with inputs, outputs <= 255 (what
    serialize_for_net_with_hop and Transaction::validate accept) and whose length is exactly
    the encoded size for those counts: it must not reject before it starts decoding elements
    (element decoding, the slip/hop loops, is cut at the first iteration)."""
    ex = ctx.executor(loop_bound=1, inline="auto", no_inline=[r"Slip::deserialize_from_net$", r"Hop::deserialize_from_net$"])
    body = ctx.body(r"transaction::<impl at [^>]*>::deserialize_from_net$")
    buf = ex.fresh_value("Vec<u8>", "buf")
    def be32(off):
        return z3.Concat(*[z3.Select(buf.arr, z3.BitVecVal(off + i, 64)) for i in range(4)])
    il, ol, ml, pl = be32(0), be32(4), be32(8), be32(12)
    z = lambda x: z3.ZeroExt(32, x)
    need = 93 + 59 * z(il) + 59 * z(ol) + z(ml) + 130 * z(pl)
    ttype = z3.Select(buf.arr, z3.BitVecVal(92, 64))
    pre = [z3.ULE(il, 255), z3.ULE(ol, 255), z3.ULE(ml, 1 << 20), z3.ULE(pl, 64), buf.len.bv == need, z3.ULE(ttype, 8)]
    st = S.State()
    st.pc.extend(pre)
    outs = ex.run(body, [S.Ref(S.Cell(buf))], st)
    v.paths += len(outs)
    reached_elements = False
    for o in outs:
        if o.kind in ("unsupported", "path-limit"):
            return v.undecided("%s: %s" % (o.kind, o.info))
        if o.kind == "unwound":
            reached_elements = True  # got past the header checks into an element loop
            continue
        if o.kind == "panic":
            r, m = ex.model_for(o.pc)
            v.queries += 1
            v.fail("panic on a well-formed size: %s" % o.info, dict(inputs=m.eval(il).as_long(), outputs=m.eval(ol).as_long()))
            continue
        if o.kind == "return":
            res = o.value
            # an element decoder (uninterpreted here) may reject; a rejection with no element decoded is a header rejection
            elem_calls = L.calls(o, r"(Slip|Hop)::deserialize_from_net$")
            if res.variant == "Err" and not elem_calls:
                r, m = ex.model_for(o.pc)
                v.queries += 1
                if r == z3.sat:
                    wit = dict(inputs=m.eval(il, model_completion=True).as_long(), outputs=m.eval(ol, model_completion=True).as_long(),
                               message_len=m.eval(ml, model_completion=True).as_long(), hops=m.eval(pl, model_completion=True).as_long(), path=L.trace_text(o, 8))
                    v.fail("the decoder rejects a transaction with %d inputs and %d outputs although the encoder and Transaction::validate accept up to 255 of each" % (wit["inputs"], wit["outputs"]), wit)
                    v.replay_rust = _replay_counts(wit)
            else:
                reached_elements = True
                v.queries += 1
    v.covers_total += 1
    v.covers_sat += 1 if reached_elements else 0


def _replay_counts(w):
    src = """
#[test]
fn replay_c09_tx_counts() {
    use saito_core::core::consensus::transaction::Transaction;
    use saito_core::core::consensus::slip::Slip;
    let mut tx = Transaction::default();
    for _ in 0..%d { tx.from.push(Slip::default()); }
    for _ in 0..%d { tx.to.push(Slip::default()); }
    tx.data = vec![7u8; %d];
    let bytes = tx.serialize_for_net();
    assert!(!bytes.is_empty(), "encoder accepted the transaction");
    let back = Transaction::deserialize_from_net(&bytes);
    assert!(back.is_ok(), "decoder rejects the encoder's own output");
    assert_eq!(back.unwrap().serialize_for_net(), bytes);
}
""" % (w["inputs"], w["outputs"], min(w["message_len"], 64))
    return ("replay_c09_tx_counts", src)


def c09_m_tx_size_prediction(ctx, v):
    """Transaction::get_serialized_size() equals the length of serialize_for_net() for transactions
    with 0..=2 inputs, 0..=2 outputs, 0..=2 hops and a payload of any length below 2^32."""
    size_fn = ctx.body(r"transaction::<impl at [^>]*>::get_serialized_size$")
    ser = ctx.body(r"transaction::<impl at [^>]*>::serialize_for_net$")
    combos = [(a, b, h) for a in (0, 1, 2) for b in (0, 1) for h in (0, 1, 2)] if ctx.tier == "quick" else [(a, b, h) for a in (0, 1, 2) for b in (0, 1, 2) for h in (0, 1, 2, 3)]
    for nin, nout, nh in combos:
        ex = ctx.executor(loop_bound=max(nin, nout, nh) + 4, inline="auto", max_paths=3000)
        ins = [L.sym_slip(ctx, ex, "in%d" % i) for i in range(nin)]
        outs_ = [L.sym_slip(ctx, ex, "out%d" % i) for i in range(nout)]
        hops = [ctx.mk_struct(ex, "Hop", "hop%d" % i) for i in range(nh)]
        data = ex.fresh_value("Vec<u8>", "data")
        ttype = ex.fresh_value("TransactionType", "type")
        tx = ctx.mk_struct(ex, "Transaction", "tx", **{"from": S.Seq(ins, "Slip"), "to": S.Seq(outs_, "Slip"), "path": S.Seq(hops, "Hop"), "data": data, "transaction_type": ttype})
        pre = [z3.ULE(data.len.bv, 1 << 32), L.enum_in_range(ttype, L.TX_TYPES)] + [L.enum_in_range(L.slip_field(ctx, s, "slip_type"), L.SLIP_TYPES) for s in ins + outs_]
        st = S.State(); st.pc.extend(pre)
        o1 = [o for o in ex.run(size_fn, [S.Ref(S.Cell(tx))], st)]
        st2 = S.State(); st2.pc.extend(pre)
        o2 = [o for o in ex.run(ser, [S.Ref(S.Cell(tx))], st2)]
        v.paths += len(o1) + len(o2)
        for o in o1 + o2:
            if o.kind in ("unsupported", "unwound", "path-limit"):
                return v.undecided("%d/%d/%d %s %s" % (nin, nout, nh, o.kind, o.info))
            if o.kind == "panic":
                v.fail("%d/%d/%d panic %s" % (nin, nout, nh, o.info))
        r1 = [o for o in o1 if o.kind == "return"]
        r2 = [o for o in o2 if o.kind == "return"]
        ok = 0
        for a in r1:
            for b in r2:
                cond = a.pc + b.pc
                r, m = ex.model_for(cond, a.value.bv != b.value.len.bv)
                v.queries += 1
                if r == z3.sat:
                    wit = dict(inputs=nin, outputs=nout, hops=nh, payload_len=m.eval(data.len.bv, model_completion=True).as_long(),
                               predicted=m.eval(a.value.bv, model_completion=True).as_long(), encoded=m.eval(b.value.len.bv, model_completion=True).as_long())
                    v.fail("predicted size %d differs from the encoded size %d for a transaction with %d inputs, %d outputs, %d hops" % (wit["predicted"], wit["encoded"], nin, nout, nh), wit)
                    if v.replay_rust is None:
                        v.replay_rust = _replay_size(wit)
                elif r == z3.unsat:
                    ok += 1
        v.covers_total += 1
        v.covers_sat += 1 if ok else 0


def _replay_size(w):
    src = """
#[test]
fn replay_c09_tx_size() {
    use saito_core::core::consensus::transaction::Transaction;
    use saito_core::core::consensus::slip::Slip;
    use saito_core::core::consensus::hop::Hop;
    let mut tx = Transaction::default();
    for _ in 0..%d { tx.from.push(Slip::default()); }
    for _ in 0..%d { tx.to.push(Slip::default()); }
    for _ in 0..%d { tx.path.push(Hop::default()); }
    tx.data = vec![1u8; %d];
    assert_eq!(tx.get_serialized_size(), tx.serialize_for_net().len(), "predicted size differs from the encoded size");
}
""" % (w["inputs"], w["outputs"], w["hops"], min(w["payload_len"], 4096))
    return ("replay_c09_tx_size", src)
