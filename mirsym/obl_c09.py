"""C09 — wire formats round-trip (engine M)."""
import re
import z3
from . import sym as S, lib as L
from .run import model_values
from .models import value_eq


def _single_return(ex, outs, v, label):
    rets = [o for o in outs if o.kind == "return"]
    for o in outs:
        if o.kind in ("unsupported", "unwound", "path-limit"):
            v.undecided("%s: %s %s" % (label, o.kind, o.info))
            return None
        if o.kind == "panic":
            L.report_panic(v, ex, o, "%s: panic reachable: %s" % (label, o.info), dict(path=L.trace_text(o, 10)))
    return rets


def c09_m_slip_roundtrip(ctx, v):
    """Slip: deserialize(serialize(x)) == x on every wire field, for every slip (all 10 types);
    size is exactly 59; re-encoding the decoded slip gives the same bytes."""
    ex = ctx.executor(loop_bound=3, inline="auto")
    ser = ctx.body(r"slip::<impl at [^>]*>::serialize_for_net$")
    de = ctx.body(r"slip::<impl at [^>]*>::deserialize_from_net$")
    slip = L.sym_slip(ctx, ex, "x")
    st = S.State()
    st.pc.append(L.enum_in_range(L.slip_field(ctx, slip, "slip_type"), L.SLIP_TYPES))
    outs = ex.run(ser, [S.Ref(S.Cell(slip))], st)
    rets = _single_return(ex, outs, v, "Slip::serialize_for_net")
    if rets is None:
        return
    v.paths += len(outs)
    for o in rets:
        wire = o.value
        r, m = ex.model_for(o.pc, wire.len.bv != 59)
        v.queries += 1
        if r == z3.sat:
            v.fail("serialized slip is not 59 bytes")
        st2 = S.State()
        st2.pc.extend(o.pc)
        outs2 = ex.run(de, [S.Ref(S.Cell(wire))], st2)
        v.paths += len(outs2)
        rets2 = _single_return(ex, outs2, v, "Slip::deserialize_from_net")
        if rets2 is None:
            return
        okseen = False
        for o2 in rets2:
            res = o2.value
            if res.variant == "Err":
                r, m = ex.model_for(o2.pc)
                v.queries += 1
                if r == z3.sat:
                    v.fail("a valid slip's own encoding is rejected by the decoder", model_values(m, dict(amount=L.slip_field(ctx, slip, "amount"))))
                continue
            y = res.payload["Ok"].fields[0]
            okseen = True
            for f in ("public_key", "amount", "block_id", "tx_ordinal", "slip_index", "slip_type"):
                a, b = L.slip_field(ctx, slip, f), ex.step_get(y, ("f", ctx.field_index("Slip", f), None))
                r, m = ex.model_for(o2.pc, z3.Not(value_eq(ex, a, b)))
                v.queries += 1
                if r == z3.sat:
                    v.fail("field %s differs after the round trip" % f, model_values(m, dict(amount=L.slip_field(ctx, slip, "amount"))))
        v.covers_total += 1
        v.covers_sat += 1 if okseen else 0


def c09_m_tx_counts_agree(ctx, v):
    """Transaction: every count the encoder accepts is accepted by the decoder.  The decoder is
    run on a buffer whose four count fields are symbolic with inputs, outputs <= 255 (what
    serialize_for_net_with_hop and Transaction::validate accept) and whose length is exactly
    the encoded size for those counts: it must not reject before it starts decoding elements
    (element decoding, the slip/hop loops, is cut at the first iteration)."""
    ex = ctx.executor(loop_bound=1, inline="auto", no_inline=[r"Slip::deserialize_from_net$", r"Hop::deserialize_from_net$"])
    body = ctx.body(r"transaction::<impl at [^>]*>::deserialize_from_net$")
    buf = ex.fresh_value("Vec<u8>", "buf")
    def be32(off):
        return z3.Concat(*[z3.Select(buf.arr, z3.BitVecVal(off + i, 64)) for i in range(4)])
    il, ol, ml, pl = be32(0), be32(4), be32(8), be32(12)
    z = lambda x: z3.ZeroExt(32, x)
    need = 93 + 59 * z(il) + 59 * z(ol) + z(ml) + 130 * z(pl)
    ttype = z3.Select(buf.arr, z3.BitVecVal(92, 64))
    pre = [z3.ULE(il, 255), z3.ULE(ol, 255), z3.ULE(ml, 1 << 20), z3.ULE(pl, 64), buf.len.bv == need, z3.ULE(ttype, 8)]
    st = S.State()
    st.pc.extend(pre)
    outs = ex.run(body, [S.Ref(S.Cell(buf))], st)
    v.paths += len(outs)
    reached_elements = False
    for o in outs:
        if o.kind in ("unsupported", "path-limit"):
            return v.undecided("%s: %s" % (o.kind, o.info))
        if o.kind == "unwound":
            reached_elements = True  # got past the header checks into an element loop
            continue
        if o.kind == "panic":
            r, m = ex.model_for(o.pc)
            v.queries += 1
            v.fail("panic on a well-formed size: %s" % o.info, dict(inputs=m.eval(il).as_long(), outputs=m.eval(ol).as_long()))
            continue
        if o.kind == "return":
            res = o.value
            # an element decoder (uninterpreted here) may reject; a rejection with no element decoded is a header rejection
            elem_calls = L.calls(o, r"(Slip|Hop)::deserialize_from_net$")
            if res.variant == "Err" and not elem_calls:
                r, m = ex.model_for(o.pc)
                v.queries += 1
                if r == z3.sat:
                    wit = dict(inputs=m.eval(il, model_completion=True).as_long(), outputs=m.eval(ol, model_completion=True).as_long(),
                               message_len=m.eval(ml, model_completion=True).as_long(), hops=m.eval(pl, model_completion=True).as_long(), path=L.trace_text(o, 8))
                    v.fail("the decoder rejects a transaction with %d inputs and %d outputs although the encoder and Transaction::validate accept up to 255 of each" % (wit["inputs"], wit["outputs"]), wit)
                    v.replay_rust = _replay_counts(wit)
            else:
                reached_elements = True
                v.queries += 1
    v.covers_total += 1
    v.covers_sat += 1 if reached_elements else 0


def _replay_counts(w):
    src = """
#[test]
fn replay_c09_tx_counts() {
    use saito_core::core::consensus::transaction::Transaction;
    use saito_core::core::consensus::slip::Slip;
    let mut tx = Transaction::default();
    for _ in 0..%d { tx.from.push(Slip::default()); }
    for _ in 0..%d { tx.to.push(Slip::default()); }
    tx.data = vec![7u8; %d];
    let bytes = tx.serialize_for_net();
    assert!(!bytes.is_empty(), "encoder accepted the transaction");
    let back = Transaction::deserialize_from_net(&bytes);
    assert!(back.is_ok(), "decoder rejects the encoder's own output");
    assert_eq!(back.unwrap().serialize_for_net(), bytes);
}
""" % (w["inputs"], w["outputs"], min(w["message_len"], 64))
    return ("replay_c09_tx_counts", src)


def c09_m_tx_size_prediction(ctx, v):
    """Transaction::get_serialized_size() equals the length of serialize_for_net() for transactions
    with 0..=2 inputs, 0..=2 outputs, 0..=2 hops and a payload of any length below 2^32."""
    size_fn = ctx.body(r"transaction::<impl at [^>]*>::get_serialized_size$")
    ser = ctx.body(r"transaction::<impl at [^>]*>::serialize_for_net$")
    combos = [(a, b, h) for a in (0, 1, 2) for b in (0, 1) for h in (0, 1, 2)] if ctx.tier == "quick" else [(a, b, h) for a in (0, 1, 2) for b in (0, 1, 2) for h in (0, 1, 2, 3)]
    for nin, nout, nh in combos:
        ex = ctx.executor(loop_bound=max(nin, nout, nh) + 4, inline="auto", max_paths=3000)
        ins = [L.sym_slip(ctx, ex, "in%d" % i) for i in range(nin)]
        outs_ = [L.sym_slip(ctx, ex, "out%d" % i) for i in range(nout)]
        hops = [ctx.mk_struct(ex, "Hop", "hop%d" % i) for i in range(nh)]
        data = ex.fresh_value("Vec<u8>", "data")
        ttype = ex.fresh_value("TransactionType", "type")
        tx = ctx.mk_struct(ex, "Transaction", "tx", **{"from": S.Seq(ins, "Slip"), "to": S.Seq(outs_, "Slip"), "path": S.Seq(hops, "Hop"), "data": data, "transaction_type": ttype})
        pre = [z3.ULE(data.len.bv, 1 << 32), L.enum_in_range(ttype, L.TX_TYPES)] + [L.enum_in_range(L.slip_field(ctx, s, "slip_type"), L.SLIP_TYPES) for s in ins + outs_]
        st = S.State(); st.pc.extend(pre)
        o1 = [o for o in ex.run(size_fn, [S.Ref(S.Cell(tx))], st)]
        st2 = S.State(); st2.pc.extend(pre)
        o2 = [o for o in ex.run(ser, [S.Ref(S.Cell(tx))], st2)]
        v.paths += len(o1) + len(o2)
        for o in o1 + o2:
            if o.kind in ("unsupported", "unwound", "path-limit"):
                return v.undecided("%d/%d/%d %s %s" % (nin, nout, nh, o.kind, o.info))
            if o.kind == "panic":
                v.fail("%d/%d/%d panic %s" % (nin, nout, nh, o.info))
        r1 = [o for o in o1 if o.kind == "return"]
        r2 = [o for o in o2 if o.kind == "return"]
        ok = 0
        for a in r1:
            for b in r2:
                cond = a.pc + b.pc
                r, m = ex.model_for(cond, a.value.bv != b.value.len.bv)
                v.queries += 1
                if r == z3.sat:
                    wit = dict(inputs=nin, outputs=nout, hops=nh, payload_len=m.eval(data.len.bv, model_completion=True).as_long(),
                               predicted=m.eval(a.value.bv, model_completion=True).as_long(), encoded=m.eval(b.value.len.bv, model_completion=True).as_long())
                    v.fail("predicted size %d differs from the encoded size %d for a transaction with %d inputs, %d outputs, %d hops" % (wit["predicted"], wit["encoded"], nin, nout, nh), wit)
                    if v.replay_rust is None:
                        v.replay_rust = _replay_size(wit)
                elif r == z3.unsat:
                    ok += 1
        v.covers_total += 1
        v.covers_sat += 1 if ok else 0


def _replay_size(w):
    src = """
#[test]
fn replay_c09_tx_size() {
    use saito_core::core::consensus::transaction::Transaction;
    use saito_core::core::consensus::slip::Slip;
    use saito_core::core::consensus::hop::Hop;
    let mut tx = Transaction::default();
    for _ in 0..%d { tx.from.push(Slip::default()); }
    for _ in 0..%d { tx.to.push(Slip::default()); }
    for _ in 0..%d { tx.path.push(Hop::default()); }
    tx.data = vec![1u8; %d];
    assert_eq!(tx.get_serialized_size(), tx.serialize_for_net().len(), "predicted size differs from the encoded size");
}
""" % (w["inputs"], w["outputs"], w["hops"], min(w["payload_len"], 4096))
    return ("replay_c09_tx_size", src)


BLOCK_WIRE_FIELDS = ["id", "timestamp", "previous_block_hash", "creator", "merkle_root", "signature", "graveyard", "treasury", "burnfee", "difficulty", "avg_total_fees", "avg_fee_per_byte",
                     "avg_nolan_rebroadcast_per_block", "previous_block_unpaid", "avg_total_fees_new", "avg_total_fees_atr", "avg_payout_routing", "avg_payout_mining", "avg_payout_treasury",
                     "avg_payout_graveyard", "avg_payout_atr", "total_payout_routing", "total_payout_mining", "total_payout_treasury", "total_payout_graveyard", "total_payout_atr", "total_fees",
                     "total_fees_new", "total_fees_atr", "fee_per_byte", "total_fees_cumulative"]


def c09_m_block_header_roundtrip(ctx, v):
    """Block header: deserialize_from_net(serialize_for_net(Header)) returns Ok and every one of
    the 31 header fields on the wire comes back equal, for every value of every field; the
    encoded header is exactly BLOCK_HEADER_SIZE bytes and carries a zero transaction count."""
    from .models import as_enum, enum_is, payload
    ex = ctx.executor(loop_bound=3, inline="auto", no_inline=[r"Transaction::", r"PrintForLog", r"fmt$"])
    ex.pure = [r".*"]
    ser = ctx.body(r"block::<impl at [^>]*>::serialize_for_net$")
    de = ctx.body(r"block::<impl at [^>]*>::deserialize_from_net$")
    vals = {}
    for f, t in ctx.structs["Block"]:
        nt = ctx.norm_type(t)
        if f in BLOCK_WIRE_FIELDS:
            vals[f] = ex.fresh_value(nt, "b.%s" % f)
    blk = ctx.mk_struct(ex, "Block", "b", **vals)
    hdr = S.EnumV("BlockType", "Header", dict(ctx.enums["BlockType"])["Header"])
    outs = ex.run(ser, [S.Ref(S.Cell(blk)), hdr], S.State())
    v.paths += len(outs)
    rets = _single_return(ex, outs, v, "Block::serialize_for_net")
    if rets is None:
        return
    ok = 0
    for o in rets:
        wire = o.value
        size = ctx.const_value(r"BLOCK_HEADER_SIZE") if hasattr(ctx, "const_value") else None
        outs2 = ex.run(de, [S.Ref(S.Cell(wire))], _st(o.pc))
        v.paths += len(outs2)
        rets2 = _single_return(ex, outs2, v, "Block::deserialize_from_net")
        if rets2 is None:
            return
        for o2 in rets2:
            e = as_enum(ex, o2.value, "Result")
            if e.variant == "Err" or (e.variant is None and ex.feasible(o2.pc, enum_is(ex, e, "Err"))):
                v.queries += 1
                if ex.feasible(o2.pc, enum_is(ex, e, "Err")):
                    v.fail("a block header's own encoding is rejected by the decoder", dict(path=L.trace_text(o2, 8)))
                    continue
            y = payload(ex, e, "Ok")
            for f in BLOCK_WIRE_FIELDS:
                a = vals[f]
                b = ex.step_get(y, ("f", ctx.field_index("Block", f), None))
                r, m = ex.model_for(o2.pc, z3.Not(value_eq(ex, a, b)))
                v.queries += 1
                if r == z3.sat:
                    v.fail("block header field %s differs after the wire round trip" % f)
                    if v.replay_rust is None:
                        v.replay_rust = _replay_block_header(ctx, m, vals, f)
            ok += 1
    v.covers_total += 1
    v.covers_sat += 1 if ok else 0


def _rust_lit(m, val):
    if isinstance(val, S.I):
        return "%d" % m.eval(val.bv, model_completion=True).as_long()
    n = m.eval(val.len.bv, model_completion=True).as_long()
    return "[" + ", ".join("%d" % m.eval(z3.Select(val.arr, z3.BitVecVal(i, 64)), model_completion=True).as_long() for i in range(n)) + "]"


def _replay_block_header(ctx, m, vals, field):
    sets = "\n".join("    b.%s = %s;" % (f, _rust_lit(m, vals[f])) for f in BLOCK_WIRE_FIELDS)
    src = """
#[test]
fn replay_c09_block_header() {
    use saito_core::core::consensus::block::{Block, BlockType};
    let mut b = Block::new();
%s
    let bytes = b.serialize_for_net(BlockType::Header);
    let back = Block::deserialize_from_net(&bytes).expect("the decoder rejects a header the encoder produced");
    assert_eq!(back.%s, b.%s, "header field %s differs after the wire round trip");
}
""" % (sets, field, field, field)
    return ("replay_c09_block_header", src)


def _st(pc):
    st = S.State()
    st.pc.extend(pc)
    return st


def _roundtrip(ctx, v, ex, label, ser, de, value, pre, compare):
    """encode `value`, decode the bytes, call compare(o2, decoded) on every Ok return; an Err return
    that is feasible is a failure.  Returns the number of Ok returns compared."""
    from .models import as_enum, enum_is, payload
    outs = ex.run(ser, [S.Ref(S.Cell(value))], _st(pre))
    v.paths += len(outs)
    rets = _single_return(ex, outs, v, label + " encoder")
    if rets is None:
        return None
    n = 0
    for o in rets:
        outs2 = ex.run(de, [S.Ref(S.Cell(o.value))], _st(o.pc))
        v.paths += len(outs2)
        rets2 = _single_return(ex, outs2, v, label + " decoder")
        if rets2 is None:
            return None
        for o2 in rets2:
            e = as_enum(ex, o2.value, "Result")
            v.queries += 1
            if ex.feasible(o2.pc, enum_is(ex, e, "Err")):
                v.fail("%s: the decoder rejects the encoder's own output" % label, dict(path=L.trace_text(o2, 8)))
                continue
            compare(o2, payload(ex, e, "Ok"), o.value)
            n += 1
    return n


def c09_m_hop_roundtrip(ctx, v):
    """Hop: deserialize(serialize(h)) == h on from, to and sig, for every hop; 130 bytes."""
    ex = ctx.executor(loop_bound=3, inline="auto")
    hop = ctx.mk_struct(ex, "Hop", "h")

    def cmp(o2, y, wire):
        for f in ("from", "to", "sig"):
            a, b = hop.fields[ctx.field_index("Hop", f)], ex.step_get(y, ("f", ctx.field_index("Hop", f), None))
            v.queries += 1
            if ex.feasible(o2.pc, z3.Not(value_eq(ex, a, b))):
                v.fail("hop field %s differs after the round trip" % f)
        v.queries += 1
        if ex.feasible(o2.pc, wire.len.bv != 130):
            v.fail("an encoded hop is not 130 bytes")
    n = _roundtrip(ctx, v, ex, "Hop", ctx.body(r"hop::<impl at [^>]*>::serialize_for_net$"), ctx.body(r"hop::<impl at [^>]*>::deserialize_from_net$"), hop, [], cmp)
    if n is None:
        return
    v.covers_total += 1
    v.covers_sat += 1 if n else 0


TX_WIRE = ("timestamp", "transaction_type", "txs_replacements", "signature")


def c09_m_tx_roundtrip(ctx, v):
    """Transaction: deserialize_from_net(serialize_for_net(tx)) is Ok and equals tx on every wire
    field - timestamp, type, txs_replacements, signature, payload bytes (length and content),
    every wire field of every input and output slip, every hop - for transactions with 0..=2
    inputs, 0..=2 outputs, 0..=1 hops (thorough 0..=2) and a payload of 0..=6 symbolic bytes."""
    ser = ctx.body(r"transaction::<impl at [^>]*>::serialize_for_net$")
    de = ctx.body(r"transaction::<impl at [^>]*>::deserialize_from_net$")
    combos = [(1, 1, 0), (2, 1, 1), (0, 2, 0), (1, 0, 1)] if ctx.tier == "quick" else [(a, b, h) for a in (0, 1, 2) for b in (0, 1, 2) for h in (0, 1, 2)]
    for nin, nout, nh in combos:
        ex = ctx.executor(loop_bound=max(nin, nout, nh, 6) + 4, inline="auto", max_paths=4000)
        ins = [L.sym_slip(ctx, ex, "in%d" % i) for i in range(nin)]
        outs_ = [L.sym_slip(ctx, ex, "out%d" % i) for i in range(nout)]
        hops = [ctx.mk_struct(ex, "Hop", "hop%d" % i) for i in range(nh)]
        data = ex.fresh_value("Vec<u8>", "data")
        ttype = ex.fresh_value("TransactionType", "type")
        tx = ctx.mk_struct(ex, "Transaction", "tx", **{"from": S.Seq(ins, "Slip"), "to": S.Seq(outs_, "Slip"), "path": S.Seq(hops, "Hop"), "data": data, "transaction_type": ttype})
        pre = [z3.ULE(data.len.bv, 6), L.enum_in_range(ttype, L.TX_TYPES)] + [L.enum_in_range(L.slip_field(ctx, s, "slip_type"), L.SLIP_TYPES) for s in ins + outs_]
        tag = "%d/%d/%d" % (nin, nout, nh)

        def cmp(o2, y, wire):
            def differ(what, a, b):
                v.queries += 1
                if ex.feasible(o2.pc, z3.Not(value_eq(ex, a, b))):
                    v.fail("transaction (%s in/out/hops) %s differs after the wire round trip" % (tag, what))
            for f in TX_WIRE:
                differ(f, tx.fields[ctx.field_index("Transaction", f)], ex.step_get(y, ("f", ctx.field_index("Transaction", f), None)))
            d2 = ex.step_get(y, ("f", ctx.field_index("Transaction", "data"), None))
            v.queries += 1
            if ex.feasible(o2.pc, z3.Or(d2.len.bv != data.len.bv, *[z3.And(z3.UGT(data.len.bv, i), z3.Select(d2.arr, z3.BitVecVal(i, 64)) != z3.Select(data.arr, z3.BitVecVal(i, 64))) for i in range(6)])):
                v.fail("transaction (%s) payload differs after the wire round trip" % tag)
            for name, orig, elems in (("from", ins, None), ("to", outs_, None)):
                seq = ex.step_get(y, ("f", ctx.field_index("Transaction", name), None))
                items = seq.items if isinstance(seq, S.Seq) else None
                if items is None or len(items) != len(orig):
                    v.fail("transaction (%s) decodes to %s %s slips, %d were encoded" % (tag, "?" if items is None else len(items), name, len(orig)))
                    continue
                for i, (a, b) in enumerate(zip(orig, items)):
                    for f in ("public_key", "amount", "block_id", "tx_ordinal", "slip_index", "slip_type"):
                        differ("%s[%d].%s" % (name, i, f), L.slip_field(ctx, a, f), ex.step_get(ex.deref_value(b) if isinstance(b, (S.Ref, S.Cell)) else b, ("f", ctx.field_index("Slip", f), None)))
            seq = ex.step_get(y, ("f", ctx.field_index("Transaction", "path"), None))
            items = seq.items if isinstance(seq, S.Seq) else None
            if items is None or len(items) != len(hops):
                v.fail("transaction (%s) decodes to %s hops, %d were encoded" % (tag, "?" if items is None else len(items), len(hops)))
            else:
                for i, (a, b) in enumerate(zip(hops, items)):
                    for f in ("from", "to", "sig"):
                        differ("path[%d].%s" % (i, f), a.fields[ctx.field_index("Hop", f)], ex.step_get(b, ("f", ctx.field_index("Hop", f), None)))
        n = _roundtrip(ctx, v, ex, "Transaction " + tag, ser, de, tx, pre, cmp)
        if n is None:
            return
        v.covers_total += 1
        v.covers_sat += 1 if n else 0


def c09_m_message_tag_agreement(ctx, v):
    """Message::deserialize and Message::get_type_value (what Message::serialize writes as the
    first byte) agree for every tag: for every buffer of length 0..=200 that decodes, the decoded
    message is of the variant whose type value IS the buffer's first byte — a reply of one kind
    never turns into another kind on the wire (e.g. an Error into a Result).  Payload round trips
    of the individual message types are separate obligations."""
    from . import obl_c10
    from .models import as_enum, enum_is, payload
    body = ctx.body(r"^message::<impl at [^>]*>::deserialize$")
    gtv = ctx.body(r"^message::<impl at [^>]*>::get_type_value$")
    seen = []

    def on_ok(ex, buf, o):
        e = as_enum(ex, o.value, "Result")
        if e.variant == "Err" or not ex.feasible(o.pc, enum_is(ex, e, "Ok")):
            return
        msg = payload(ex, e, "Ok")
        st = _st(o.pc)
        outs = ex.run(gtv, [S.Ref(S.Cell(msg))], st)
        for g in outs:
            if g.kind != "return":
                if g.kind in ("unsupported", "unwound", "path-limit"):
                    v.undecided("get_type_value: %s %s" % (g.kind, g.info))
                continue
            tag = z3.Select(orig[0], z3.BitVecVal(0, 64))   # the buffer as handed to the decoder (it is consumed / re-sliced inside)
            r, m = ex.model_for(g.pc, z3.And(enum_is(ex, e, "Ok"), g.value.bv != tag))
            v.queries += 1
            if r == z3.sat:
                if L.fail_structural(v, g, "a message sent with type byte %d decodes into a message of type %d" % (m.eval(tag, model_completion=True).as_long(), m.eval(g.value.bv, model_completion=True).as_long())) and v.replay_rust is None:
                    n_ = m.eval(buf0_len[0].bv, model_completion=True).as_long() if buf0_len else 0
                    data = [m.eval(z3.Select(orig[0], z3.BitVecVal(i, 64)), model_completion=True).as_long() for i in range(min(n_, 260))]
                    v.replay_rust = ("replay_c09_message_tag", """
#[test]
fn replay_c09_message_tag() {
    let buf: Vec<u8> = vec![%s];
    let msg = saito_core::core::msg::message::Message::deserialize(buf.clone()).expect("the buffer decodes");
    assert_eq!(msg.get_type_value(), buf[0], "the decoded message is of another type than the one sent");
}
""" % ", ".join(str(x) for x in data))
            elif r == z3.unsat:
                seen.append(1)
    vv = type(v)()
    orig, buf0_len = [], []
    obl_c10._explore_total(ctx, vv, "Message::deserialize", body, lambda ex, b: (orig.append(b.arr), buf0_len.append(S.I(b.len.bv)), [b])[2], 200, 8,
                           no_inline=[r"Block::deserialize_from_net$", r"Transaction::deserialize_from_net$", r"HandshakeResponse.*deserialize$"], on_ok=on_ok)
    v.paths += vv.paths
    if vv.status == "undecided" and vv.why:
        return v.undecided(vv.why)
    v.covers_total += 1
    v.covers_sat += 1 if seen else 0


def c09_lite_header_copy(ctx, v):
    """a lite block crosses the wire and must keep its hash and signature validity: every signed
    header field of the lite block equals the full block's (same obligation as C18
    c18_lite_header_copy)."""
    from . import obl_c18
    obl_c18.c18_lite_header_copy(ctx, v)


def c09_m_message_roundtrip(ctx, v):
    """Message::deserialize(Message::serialize(m)) == m, field by field, for the message types with
    a fixed-shape payload decoded inside Message::deserialize itself, every value of their fields:
    BlockHeaderHash (hash, id), GhostChainRequest (block id, block hash, fork id — two 32-byte
    values that must not be exchanged), Ping, SPVChain.  The other types' payload decoders have
    their own obligations (slip / hop / transaction / block header) or are outside this one."""
    from .models import as_enum, enum_is, payload
    ser = ctx.body(r"^message::<impl at [^>]*>::serialize$")
    de = ctx.body(r"^message::<impl at [^>]*>::deserialize$")
    ok = 0
    cases = []
    def mk(ex):
        h = lambda n: ex.fresh_value("[u8; 32]", n)
        return [
            ("BlockHeaderHash", [h("block_hash"), ex.fresh_value("u64", "block_id")]),
            ("GhostChainRequest", [ex.fresh_value("u64", "block_id"), h("block_hash"), h("fork_id")]),
            ("Ping", []),
            ("SPVChain", []),
        ]
    for idx in range(4):
        ex = ctx.executor(loop_bound=6, inline="auto", max_paths=3000, no_inline=[r"Block::", r"Transaction::", r"HandshakeResponse", r"PeerService", r"GhostChainSync", r"fmt", r"to_hex"])
        ex.pure = [r".*"]
        name, fields = mk(ex)[idx]
        msg = S.EnumV("Message", name, dict(ctx.enums["Message"])[name], {name: S.Agg("variant", name, fields)})
        outs = ex.run(ser, [S.Ref(S.Cell(msg))], S.State())
        v.paths += len(outs)
        rets = _single_return(ex, outs, v, "Message::serialize(%s)" % name)
        if rets is None:
            return
        for o in rets:
            wire = o.value
            if not isinstance(wire, S.Bytes):
                return v.undecided("%s: encoder result is not a byte string" % name)
            outs2 = ex.run(de, [ex.copy_value(wire)], _st(o.pc))
            v.paths += len(outs2)
            rets2 = _single_return(ex, outs2, v, "Message::deserialize(%s)" % name)
            if rets2 is None:
                return
            for o2 in rets2:
                e = as_enum(ex, o2.value, "Result")
                v.queries += 1
                if ex.feasible(o2.pc, enum_is(ex, e, "Err")):
                    L.fail_structural(v, o2, "%s: the decoder rejects the encoder's own output" % name)
                    continue
                back = payload(ex, e, "Ok")
                if not (isinstance(back, S.EnumV) and back.variant == name):
                    L.fail_structural(v, o2, "%s decodes into %s" % (name, getattr(back, "variant", "?")))
                    continue
                bf = back.payload[name].fields
                bad = False
                for k, (a, b) in enumerate(zip(fields, bf)):
                    if isinstance(a, S.Agg):
                        a, b = a.fields[0], (ex.deref_value(b) if isinstance(b, S.Ref) else b).fields[0]
                    v.queries += 1
                    if ex.feasible(o2.pc, z3.Not(value_eq(ex, a, b))):
                        L.fail_structural(v, o2, "%s: field %d differs after the wire round trip" % (name, k))
                        bad = True
                ok += 0 if bad else 1
    v.covers_total += 1
    v.covers_sat += 1 if ok >= 4 else 0


def c09_m_tx_encoder_accepts_counts(ctx, v):
    """Transaction::serialize_for_net_with_hop, the refusal exits in front of the encoding (it
    answers an empty buffer, which the block encoder still counts as a transaction, so the
    block cannot be read back): a transaction with at most 255 inputs and at most 255 outputs —
    what add_to_slip / add_from_slip, Transaction::validate and the decoder accept — is never
    refused.  Input and output counts symbolic (full 64-bit range); explored up to the first
    element encoding."""
    body = ctx.body(r"transaction::<impl at [^>]*>::serialize_for_net_with_hop$")
    ex = ctx.executor(loop_bound=2, inline="auto", max_paths=2000, no_inline=[r"Slip::", r"Hop::", r"fmt", r"to_hex"])
    ex.pure = [r".*"]
    ex.stop_calls = [r"::iter$", r"IntoIterator>::into_iter$", r"Slip::serialize_for_net$"]
    nin, nout = S.I(z3.BitVec("tx.from.len", 64)), S.I(z3.BitVec("tx.to.len", 64))
    frm, to = S.Opaque("tx.from", "Vec<Slip>"), S.Opaque("tx.to", "Vec<Slip>")
    frm.children["len"], to.children["len"] = nin, nout
    npath = S.I(z3.BitVec("tx.path.len", 64))
    pth = S.Opaque("tx.path", "Vec<Hop>")
    pth.children["len"] = npath
    tx = ctx.mk_struct(ex, "Transaction", "tx", **{"from": frm, "to": to, "path": pth})
    hop = S.EnumV("Option<Hop>", None, S.I(z3.BitVec("opt_hop.discr", 64), True))
    st = S.State()
    st.pc.extend([L.enum_in_range(hop, 2), z3.ULE(npath.bv, 1 << 32)])   # a Vec<Hop> cannot hold 2^64 - 1 elements
    outs = ex.run(body, [S.Ref(S.Cell(tx)), hop], st)
    v.paths += len(outs)
    small = z3.And(z3.ULE(nin.bv, 255), z3.ULE(nout.bv, 255))
    accepted = refused = 0
    for o in outs:
        if o.kind in ("unsupported", "unwound", "path-limit"):
            return v.undecided("%s %s" % (o.kind, o.info))
        if o.kind == "panic":
            L.report_panic(v, ex, o, "the encoder panics before encoding: %s" % o.info)
            continue
        if o.kind == "stopped":
            v.queries += 1
            if ex.feasible(o.pc, z3.And(nin.bv == 255, nout.bv == 255)):
                accepted += 1
            continue
        if o.kind != "return":
            continue
        refused += 1
        r, m = ex.model_for(o.pc, small)
        v.queries += 1
        if r == z3.sat:
            v.sat += 1
            wit = dict(inputs=m.eval(nin.bv, model_completion=True).as_long(), outputs=m.eval(nout.bv, model_completion=True).as_long(), path=L.trace_text(o, 8))
            L.fail_structural(v, o, "the encoder refuses (answers no bytes for) a transaction with %d inputs and %d outputs although up to 255 of each are accepted everywhere else" % (wit["inputs"], wit["outputs"]), wit)
        elif r == z3.unsat:
            v.unsat += 1
        else:
            return v.undecided("solver %s" % r)
    v.covers_total += 1
    v.covers_sat += 1 if (accepted and refused) else 0
