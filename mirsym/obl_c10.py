"""C10 / C09 — decoders explored symbolically over MIR: buffer length AND content symbolic."""
import re
import z3
from . import sym as S, lib as L
from .run import model_values


def _buf(ex, name, maxlen):
    b = ex.fresh_value("Vec<u8>", name)
    return b, z3.ULE(b.len.bv, z3.BitVecVal(maxlen, 64))


def _explore_total(ctx, v, label, body, mk_args, maxlen, loop_bound, no_inline=(), extra_pc=None, on_ok=None, want_ok=True):
    """run a decoder on a buffer of symbolic length <= maxlen; any reachable panic is a violation"""
    ex = ctx.executor(loop_bound=loop_bound, inline="auto", no_inline=list(no_inline) + [r"deserialize_services$", r"from_utf8"], max_paths=6000)
    buf, bound = _buf(ex, "buf", maxlen)
    st = S.State()
    st.pc.append(bound)
    if extra_pc:
        st.pc.extend(extra_pc(ex, buf))
    outs = ex.run(body, mk_args(ex, buf), st)
    v.paths += len(outs)
    oks = 0
    for o in outs:
        if o.kind in ("unsupported", "path-limit"):
            v.undecided("%s: %s: %s" % (label, o.kind, o.info))
            return ex, buf, outs
        if o.kind == "unwound":
            v.undecided("%s: loop bound %d too small for length <= %d (%s)" % (label, loop_bound, maxlen, o.info))
            return ex, buf, outs
        if o.kind == "panic":
            r, m = ex.model_for(o.pc)
            v.queries += 1
            if r == z3.sat:
                wit = model_values(m, dict(buffer=buf))
                wit["len"] = len(wit["buffer"]) if isinstance(wit.get("buffer"), list) else None
                wit["panic"] = o.info
                wit["path"] = L.trace_text(o, 12)
                v.fail("%s: panic reachable: %s (buffer length %s)" % (label, o.info, wit["len"]), wit)
                if v.replay_rust is None and isinstance(wit.get("buffer"), list):
                    v.replay_rust = _replay(label, wit["buffer"])
        if o.kind == "return":
            v.queries += 1
            v.unsat += 1
            oks += 1
            if on_ok:
                on_ok(ex, buf, o)
    v.covers_total += 1
    v.covers_sat += 1 if oks else 0
    return ex, buf, outs


REPLAY_CALL = {
    "Transaction::deserialize_from_net": "let _ = saito_core::core::consensus::transaction::Transaction::deserialize_from_net(&buf);",
    "Block::deserialize_from_net": "let _ = saito_core::core::consensus::block::Block::deserialize_from_net(&buf);",
    "HandshakeResponse::deserialize": "{ use saito_core::core::util::serialize::Serialize; let _ = saito_core::core::msg::handshake::HandshakeResponse::deserialize(&buf); }",
    "HandshakeChallenge::deserialize": "{ use saito_core::core::util::serialize::Serialize; let _ = saito_core::core::msg::handshake::HandshakeChallenge::deserialize(&buf); }",
    "Message::deserialize": "let _ = saito_core::core::msg::message::Message::deserialize(buf.clone());",
    "Slip::deserialize_from_net": "let _ = saito_core::core::consensus::slip::Slip::deserialize_from_net(&buf);",
    "Hop::deserialize_from_net": "let _ = saito_core::core::consensus::hop::Hop::deserialize_from_net(&buf);",
    "BlockchainRequest::deserialize": "{ use saito_core::core::util::serialize::Serialize; let _ = saito_core::core::msg::block_request::BlockchainRequest::deserialize(&buf); }",
    "Version::deserialize": "{ use saito_core::core::util::serialize::Serialize; let _ = saito_core::core::process::version::Version::deserialize(&buf); }",
}


def _replay(label, data):
    key = label.split(" ")[0]
    call = REPLAY_CALL.get(key)
    if call is None:
        return None
    name = "replay_c10_" + re.sub(r"\W+", "_", key).lower()
    src = """
#[test]
fn %s() {
    // decoder must return Ok or Err for this buffer; a panic fails the test
    let buf: Vec<u8> = vec![%s];
    %s
}
""" % (name, ", ".join(str(x) for x in data), call)
    return (name, src)


def c10_m_tx(ctx, v):
    """Transaction::deserialize_from_net: every buffer of length 0..=93+2*59+130+8, all bytes
    and the four count fields symbolic: returns Ok/Err, never panics (slice index, overflow)."""
    body = ctx.body(r"transaction::<impl at [^>]*>::deserialize_from_net$")
    n = 93 + 2 * 59 + 130 + 8 if ctx.tier == "quick" else 93 + 3 * 59 + 2 * 130 + 16
    _explore_total(ctx, v, "Transaction::deserialize_from_net", body, lambda ex, b: [S.Ref(S.Cell(b))], n, 5 if ctx.tier == "quick" else 6)


def c10_m_slip_hop(ctx, v):
    for label, pat, n in (("Slip::deserialize_from_net", r"slip::<impl at [^>]*>::deserialize_from_net$", 64), ("Hop::deserialize_from_net", r"hop::<impl at [^>]*>::deserialize_from_net$", 140)):
        _explore_total(ctx, v, label, ctx.body(pat), lambda ex, b: [S.Ref(S.Cell(b))], n, 3)


def c10_m_handshake(ctx, v):
    """HandshakeResponse / HandshakeChallenge / BlockchainRequest / Version ::deserialize on every
    buffer of length 0..=400 (content and the url-length field symbolic).  String::from_utf8 and
    the services text parser are uninterpreted (they are std / text code: outside this query)."""
    _explore_total(ctx, v, "HandshakeResponse::deserialize", ctx.body(r"handshake::<impl at [^>]*:51:1[^>]*>::deserialize$"), lambda ex, b: [S.Ref(S.Cell(b))], 400, 3)
    _explore_total(ctx, v, "HandshakeChallenge::deserialize", ctx.body(r"handshake::<impl at [^>]*:27:1[^>]*>::deserialize$"), lambda ex, b: [S.Ref(S.Cell(b))], 80, 3)
    _explore_total(ctx, v, "BlockchainRequest::deserialize", ctx.body(r"block_request::<impl at [^>]*>::deserialize$"), lambda ex, b: [S.Ref(S.Cell(b))], 100, 3)
    _explore_total(ctx, v, "Version::deserialize", ctx.body(r"version::<impl at [^>]*>::deserialize$"), lambda ex, b: [S.Ref(S.Cell(b))], 16, 3)


def c10_m_message(ctx, v):
    """Message::deserialize for every tag byte and every payload of length 0..=200 (tags 3 and 4
    delegate to the block / transaction decoders, explored separately and left uninterpreted
    here; tag 9 parses text and is uninterpreted)."""
    body = ctx.body(r"^message::<impl at [^>]*>::deserialize$")
    _explore_total(ctx, v, "Message::deserialize", body, lambda ex, b: [b], 200, 8,
                   no_inline=[r"Block::deserialize_from_net$", r"Transaction::deserialize_from_net$", r"HandshakeResponse.*deserialize$"])


def c10_m_block(ctx, v):
    """Block::deserialize_from_net: every buffer of length 0..=389+16+93+59+8 (header, up to two
    transaction records with symbolic counts).  Transaction::deserialize_from_net receives an
    exactly-sized slice and is decided for every length by c10_m_tx; here it is uninterpreted."""
    body = ctx.body(r"block::<impl at [^>]*>::deserialize_from_net$")
    n = 389 + 16 + 93 + 59 + 8 if ctx.tier == "quick" else 389 + 2 * (93 + 59) + 32
    _explore_total(ctx, v, "Block::deserialize_from_net", body, lambda ex, b: [S.Ref(S.Cell(b))], n, 4 if ctx.tier == "quick" else 5,
                   no_inline=[r"Transaction::deserialize_from_net$"])
