"""C10 / C09 — decoders explored symbolically over MIR: buffer length AND content symbolic."""
import re
import z3
from . import sym as S, lib as L
from .run import model_values


def _buf(ex, name, maxlen):
    b = ex.fresh_value("Vec<u8>", name)
    return b, z3.ULE(b.len.bv, z3.BitVecVal(maxlen, 64))


def _explore_total(ctx, v, label, body, mk_args, maxlen, loop_bound, no_inline=(), extra_pc=None, on_ok=None, want_ok=True):
    """run a decoder on a buffer of symbolic length <= maxlen; any reachable panic is a violation"""
    ex = ctx.executor(loop_bound=loop_bound, inline="auto", no_inline=list(no_inline) + [r"deserialize_services$", r"from_utf8"], max_paths=6000)
    buf, bound = _buf(ex, "buf", maxlen)
    st = S.State()
    st.pc.append(bound)
    if extra_pc:
        st.pc.extend(extra_pc(ex, buf))
    outs = ex.run(body, mk_args(ex, buf), st)
    v.paths += len(outs)
    oks = 0
    for o in outs:
        if o.kind in ("unsupported", "path-limit"):
            v.undecided("%s: %s: %s" % (label, o.kind, o.info))
            return ex, buf, outs
        if o.kind == "unwound":
            v.undecided("%s: loop bound %d too small for length <= %d (%s)" % (label, loop_bound, maxlen, o.info))
            return ex, buf, outs
        if o.kind == "panic":
            r, m = ex.model_for(o.pc)
            v.queries += 1
            if r == z3.sat:
                wit = model_values(m, dict(buffer=buf))
                wit["len"] = len(wit["buffer"]) if isinstance(wit.get("buffer"), list) else None
                wit["panic"] = o.info
                wit["path"] = L.trace_text(o, 12)
                v.fail("%s: panic reachable: %s (buffer length %s)" % (label, o.info, wit["len"]), wit)
                if v.replay_rust is None and isinstance(wit.get("buffer"), list):
                    v.replay_rust = _replay(label, wit["buffer"])
        # allocation bound: no capacity request may exceed a small multiple of the input length, on any path
        for e in o.events:
            if e[0] != "alloc":
                continue
            cnt = e[2][0]
            big = z3.UGT(z3.ZeroExt(64, cnt.bv) if cnt.bv.size() == 64 else z3.ZeroExt(128 - cnt.bv.size(), cnt.bv), z3.ZeroExt(64, buf.len.bv) * 64 + 4096)
            r, m = ex.model_for(o.pc, big)
            v.queries += 1
            if r == z3.sat:
                wit = model_values(m, dict(buffer=buf))
                wit["len"] = len(wit["buffer"]) if isinstance(wit.get("buffer"), list) else None
                wit["elements_requested"] = m.eval(cnt.bv, model_completion=True).as_long()
                v.fail("%s: a capacity of %d elements (%s) is requested for a buffer of %s bytes: allocation not bounded by a small multiple of the input length" % (label, wit["elements_requested"], e[1][:60], wit["len"]), wit)
                if v.replay_rust is None and isinstance(wit.get("buffer"), list):
                    v.replay_rust = _replay_alloc(label, wit["buffer"])
        if o.kind == "return":
            v.queries += 1
            v.unsat += 1
            oks += 1
            if on_ok:
                on_ok(ex, buf, o)
    v.covers_total += 1
    v.covers_sat += 1 if oks else 0
    return ex, buf, outs


REPLAY_CALL = {
    "Transaction::deserialize_from_net": "let _ = saito_core::core::consensus::transaction::Transaction::deserialize_from_net(&buf);",
    "Block::deserialize_from_net": "let _ = saito_core::core::consensus::block::Block::deserialize_from_net(&buf);",
    "HandshakeResponse::deserialize": "{ use saito_core::core::util::serialize::Serialize; let _ = saito_core::core::msg::handshake::HandshakeResponse::deserialize(&buf); }",
    "HandshakeChallenge::deserialize": "{ use saito_core::core::util::serialize::Serialize; let _ = saito_core::core::msg::handshake::HandshakeChallenge::deserialize(&buf); }",
    "Message::deserialize": "let _ = saito_core::core::msg::message::Message::deserialize(buf.clone());",
    "Slip::deserialize_from_net": "let _ = saito_core::core::consensus::slip::Slip::deserialize_from_net(&buf);",
    "Hop::deserialize_from_net": "let _ = saito_core::core::consensus::hop::Hop::deserialize_from_net(&buf);",
    "BlockchainRequest::deserialize": "{ use saito_core::core::util::serialize::Serialize; let _ = saito_core::core::msg::block_request::BlockchainRequest::deserialize(&buf); }",
    "Version::deserialize": "{ use saito_core::core::util::serialize::Serialize; let _ = saito_core::core::process::version::Version::deserialize(&buf); }",
}


def _replay(label, data):
    key = label.split(" ")[0]
    call = REPLAY_CALL.get(key)
    if call is None:
        return None
    name = "replay_c10_" + re.sub(r"\W+", "_", key).lower()
    src = """
#[test]
fn %s() {
    // decoder must return Ok or Err for this buffer; a panic fails the test
    let buf: Vec<u8> = vec![%s];
    %s
}
""" % (name, ", ".join(str(x) for x in data), call)
    return (name, src)


def _replay_alloc(label, data):
    key = label.split(" ")[0]
    call = REPLAY_CALL.get(key)
    if call is None:
        return None
    name = "replay_c10_alloc_" + re.sub(r"\W+", "_", key).lower()
    src = """
// pass-through allocator that records the largest single request made on this thread
struct Peak;
thread_local! { static MAX_REQ: std::cell::Cell<usize> = std::cell::Cell::new(0); }
unsafe impl std::alloc::GlobalAlloc for Peak {
    unsafe fn alloc(&self, l: std::alloc::Layout) -> *mut u8 {
        let _ = MAX_REQ.try_with(|m| if l.size() > m.get() { m.set(l.size()) });
        std::alloc::System.alloc(l)
    }
    unsafe fn dealloc(&self, p: *mut u8, l: std::alloc::Layout) { std::alloc::System.dealloc(p, l) }
    unsafe fn realloc(&self, p: *mut u8, l: std::alloc::Layout, n: usize) -> *mut u8 {
        let _ = MAX_REQ.try_with(|m| if n > m.get() { m.set(n) });
        std::alloc::System.realloc(p, l, n)
    }
}
#[global_allocator]
static A: Peak = Peak;

#[test]
fn %s() {
    let buf: Vec<u8> = vec![%s];
    MAX_REQ.with(|m| m.set(0));
    // a failed huge allocation aborts or panics: either way this test does not pass
    %s
    let peak = MAX_REQ.with(|m| m.get());
    assert!(peak <= 64 * buf.len() + 4096, "a single allocation of {} bytes was requested for a {} byte buffer", peak, buf.len());
}
""" % (name, ", ".join(str(x) for x in data), call)
    return (name, src)


def c10_m_tx(ctx, v):
    """Transaction::deserialize_from_net: every buffer of length 0..=93+2*59+130+8, all bytes
    and the four count fields symbolic: returns Ok/Err, never panics (slice index, overflow)."""
    body = ctx.body(r"transaction::<impl at [^>]*>::deserialize_from_net$")
    n = 93 + 2 * 59 + 130 + 8 if ctx.tier == "quick" else 93 + 3 * 59 + 2 * 130 + 16
    _explore_total(ctx, v, "Transaction::deserialize_from_net", body, lambda ex, b: [S.Ref(S.Cell(b))], n, 5 if ctx.tier == "quick" else 10)


def c10_m_slip_hop(ctx, v):
    for label, pat, n in (("Slip::deserialize_from_net", r"slip::<impl at [^>]*>::deserialize_from_net$", 64), ("Hop::deserialize_from_net", r"hop::<impl at [^>]*>::deserialize_from_net$", 140)):
        _explore_total(ctx, v, label, ctx.body(pat), lambda ex, b: [S.Ref(S.Cell(b))], n, 3)


def c10_m_handshake(ctx, v):
    """HandshakeResponse / HandshakeChallenge / BlockchainRequest / Version ::deserialize on every
    buffer of length 0..=400 (content and the url-length field symbolic).  String::from_utf8 and
    the services text parser are uninterpreted (they are std / text code: outside this query)."""
    _explore_total(ctx, v, "HandshakeResponse::deserialize", ctx.body(r"handshake::<impl at [^>]*:51:1[^>]*>::deserialize$"), lambda ex, b: [S.Ref(S.Cell(b))], 400, 3)
    _explore_total(ctx, v, "HandshakeChallenge::deserialize", ctx.body(r"handshake::<impl at [^>]*:27:1[^>]*>::deserialize$"), lambda ex, b: [S.Ref(S.Cell(b))], 80, 3)
    _explore_total(ctx, v, "BlockchainRequest::deserialize", ctx.body(r"block_request::<impl at [^>]*>::deserialize$"), lambda ex, b: [S.Ref(S.Cell(b))], 100, 3)
    _explore_total(ctx, v, "Version::deserialize", ctx.body(r"version::<impl at [^>]*>::deserialize$"), lambda ex, b: [S.Ref(S.Cell(b))], 16, 3)


def c10_m_message(ctx, v):
    """Message::deserialize for every tag byte and every payload of length 0..=200 (tags 3 and 4
    delegate to the block / transaction decoders, explored separately and left uninterpreted
    here; tag 9 parses text and is uninterpreted)."""
    body = ctx.body(r"^message::<impl at [^>]*>::deserialize$")
    _explore_total(ctx, v, "Message::deserialize", body, lambda ex, b: [b], 200, 8,
                   no_inline=[r"Block::deserialize_from_net$", r"Transaction::deserialize_from_net$", r"HandshakeResponse.*deserialize$"])


def c10_m_block(ctx, v):
    """Block::deserialize_from_net: every buffer of length 0..=389+16+93+59+8 (header, up to two
    transaction records with symbolic counts).  Transaction::deserialize_from_net receives an
    exactly-sized slice and is decided for every length by c10_m_tx; here it is uninterpreted."""
    body = ctx.body(r"block::<impl at [^>]*>::deserialize_from_net$")
    n = 389 + 16 + 93 + 59 + 8 if ctx.tier == "quick" else 389 + 2 * (93 + 59) + 32
    _explore_total(ctx, v, "Block::deserialize_from_net", body, lambda ex, b: [S.Ref(S.Cell(b))], n, 4 if ctx.tier == "quick" else 5,
                   no_inline=[r"Transaction::deserialize_from_net$"])


def c10_m_peer_service_record(ctx, v):
    """<PeerService as TryFrom<String>>::try_from — the parser of one `service|domain|name` record
    out of a peer's service list (message tag 9 and the tail of a handshake response) — for a
    record of ANY byte length that splits into any number of `|`-separated pieces (1..=5
    explored; the piece count is an explicit symbolic input tied to the length only by
    pieces <= length + 1): it returns Ok or Err, never an index panic.  The pieces themselves
    are opaque strings; `&str -> String` conversion is infallible."""
    from .models import mk_ok
    body = ctx.body(r"peer_service::<impl at [^>]*>::try_from$")
    total = 0
    for k in (1, 2, 3, 4, 5):
        ex = ctx.executor(loop_bound=4, inline="auto", no_inline=[r"fmt"])
        ex.pure = [r".*"]
        ln = ex.fresh_value("usize", "record_len")

        def hook(ex_, st, callee, args, dty, k=k, ln=ln):
            if re.search(r"str>::split::<char>$", callee):
                return S.Agg("struct", "SplitIter", [args[0]])
            if re.search(r"<(?:std|core)::str::Split<'_, char> as Iterator>::collect::<Vec<&str>>$", callee):
                return S.Seq([S.Opaque("piece%d" % i, "&str") for i in range(k)], "&str")
            if re.search(r"(?:String|str)::len$|<impl str>::len$", callee):
                return ex_.copy_value(ln)
            if re.search(r"<&str as TryInto<String>>::try_into$", callee):
                return mk_ok(dty, S.Opaque("owned!%d" % next(ex_.fresh_counter), "String"))
            return None
        ex.on_call = hook
        st = S.State()
        st.pc.append(z3.UGE(ln.bv + 1, k))
        outs = ex.run(body, [S.Opaque("record", "String")], st)
        v.paths += len(outs)
        for o in outs:
            if o.kind in ("unsupported", "unwound", "path-limit"):
                return v.undecided("%d pieces: %s %s" % (k, o.kind, o.info))
            if o.kind == "panic":
                r, m = ex.model_for(o.pc)
                v.queries += 1
                if r == z3.sat:
                    n = m.eval(ln.bv, model_completion=True).as_long()
                    v.fail("a service record of %d bytes with %d `|`-separated piece(s) makes PeerService::try_from panic: %s" % (n, k, o.info), dict(record_len=n, pieces=k))
                    if v.replay_rust is None and k - 1 <= n <= 64:
                        rec = "|".join(["a"] * k)
                        rec = rec + "a" * max(0, n - len(rec))
                        v.replay_rust = ("replay_c10_peer_service_record", """
#[test]
fn replay_c10_peer_service_record() {
    use saito_core::core::consensus::peers::peer_service::PeerService;
    let _ = PeerService::try_from(String::from("%s"));   // Ok or Err, not a panic
}
""" % rec)
                continue
            if o.kind == "return":
                total += 1
    v.covers_total += 1
    v.covers_sat += 1 if total else 0
