"""C14 — transaction pool consistent with the ledger (engine M)."""
import re
import z3
from . import sym as S, lib as L
from .models import value_eq
from .run import known_classes


def _pool(ctx, ex, pooled_inputs):
    """pool holding one transaction P with `pooled_inputs` inputs; utxo_map = keys of P's inputs (Inv)"""
    pins = [L.sym_slip(ctx, ex, "pooled_in%d" % i) for i in range(pooled_inputs)]
    psig = ex.fresh_value("[u8; 64]", "pooled.sig")
    ptx = ctx.mk_struct(ex, "Transaction", "pooled", **{"from": S.Seq(pins, "Slip"), "signature": psig})
    txs = S.MapV("transactions", [[z3.BoolVal(True), psig, ptx]])
    key = lambda s: L.slip_field(ctx, s, "utxoset_key")
    umap = S.MapV("utxo_map", [[z3.BoolVal(True), key(s), S.const_int(1, "u64")] for s in pins])
    rw = ex.fresh_value("u64", "routing_work_in_mempool")
    pool = ctx.mk_struct(ex, "Mempool", "mempool", transactions=txs, utxo_map=umap, routing_work_in_mempool=rw)
    SUPPLY = 7 * 10**17
    pre0 = [z3.ULE(rw.bv, SUPPLY), z3.ULE(ptx.fields[ctx.field_index("Transaction", "total_work_for_me")].bv, SUPPLY)]
    pre = pre0 + [z3.Not(value_eq(ex, key(a), key(b))) for i, a in enumerate(pins) for b in pins[:i]]
    return pool, pins, psig, pre


def _post_pool(ex, o):
    co = ex.deref_value(o.state.frames[0].locals["_1"].v)
    cands = [co.upvars[0]] + [f for p in co.payload.values() if isinstance(p, S.Agg) for f in p.fields]
    for c in cands:
        if isinstance(c, S.Ref):
            pv = ex.deref_value(c)
            if isinstance(pv, S.Agg) and pv.name == "Mempool":
                return pv
    return None


def c14_add_transaction_step(ctx, v):
    """Mempool::add_transaction from a pool holding one transaction (1..=2 inputs, Inv: utxo_map =
    keys of pooled inputs) and a new transaction with 1..=2 inputs:
      a value-carrying input already reserved  =>  the pool is unchanged (no second spender);
      otherwise, and signature not pooled  =>  the transaction is pooled and every input key is
      reserved; never a panic for non-golden-ticket types."""
    for pin in (1, 2):
        for nin in (1, 2):
            ex = ctx.executor(loop_bound=max(pin, nin) + 3, inline="auto", no_inline=[r"Display", r"fmt$"])
            pool, pins, psig, pre = _pool(ctx, ex, pin)
            ins = [L.sym_slip(ctx, ex, "in%d" % i) for i in range(nin)]
            sig = ex.fresh_value("[u8; 64]", "tx.sig")
            ttype = ex.fresh_value("TransactionType", "tx.type")
            tx = ctx.mk_struct(ex, "Transaction", "tx", **{"from": S.Seq(ins, "Slip"), "signature": sig, "transaction_type": ttype})
            key = lambda s: L.slip_field(ctx, s, "utxoset_key")
            amt = lambda s: L.slip_field(ctx, s, "amount")
            st = S.State()
            st.pc.extend(pre + [L.enum_in_range(ttype, L.TX_TYPES), z3.Not(L.enum_is(ctx, ttype, "TransactionType", "GoldenTicket")),
                                z3.ULE(tx.fields[ctx.field_index("Transaction", "total_work_for_me")].bv, 7 * 10**17)])
            st.pc.extend([z3.Not(value_eq(ex, key(a), key(b))) for i, a in enumerate(ins) for b in ins[:i]])
            body, co = L.coroutine(ctx, ex, r"mempool::<impl at [^>]*>::add_transaction", [S.Ref(S.Cell(pool), (), True), tx])
            outs = ex.run(body, [S.Ref(S.Cell(co), (), True), S.Opaque("cx", "Context")], st)
            v.paths += len(outs)
            conflict = z3.Or(*[z3.And(amt(s).bv != 0, value_eq(ex, key(s), key(p))) for s in ins for p in pins])
            dup_sig = value_eq(ex, sig, psig)
            seen = 0
            for o in outs:
                if o.kind in ("unsupported", "unwound", "path-limit"):
                    return v.undecided("%d/%d %s %s" % (pin, nin, o.kind, o.info))
                if o.kind == "panic":
                    r, m = ex.model_for(o.pc)
                    v.queries += 1
                    if r == z3.sat:
                        v.fail("panic: %s" % o.info)
                    continue
                if o.kind != "return":
                    continue
                post = _post_pool(ex, o)
                if post is None:
                    return v.undecided("pool not found in coroutine state")
                ptxs = post.fields[ctx.field_index("Mempool", "transactions")]
                pmap = post.fields[ctx.field_index("Mempool", "utxo_map")]
                pooled_now = z3.Or(*[z3.And(p, value_eq(ex, k, sig)) for p, k, _ in ptxs.entries])
                reserved = lambda s: z3.Or(*[z3.And(p, value_eq(ex, k, key(s))) for p, k, _ in pmap.entries])
                n_entries = sum([z3.If(p, 1, 0) for p, k, _ in ptxs.entries])
                checks = [("a transaction spending an output already reserved by a pooled transaction was pooled (two spenders of one output)", z3.And(conflict, z3.Not(dup_sig), pooled_now)),
                          ("a conflict-free transaction with a new signature was not pooled", z3.And(z3.Not(conflict), z3.Not(dup_sig), z3.Not(pooled_now)))]
                for s in ins:
                    checks.append(("a pooled transaction's input is not reserved in utxo_map", z3.And(z3.Not(conflict), z3.Not(dup_sig), z3.Not(reserved(s)))))
                    was_reserved = z3.Or(*[value_eq(ex, key(s), key(p)) for p in pins])
                    checks.append(("a transaction that was NOT pooled left one of its inputs reserved in utxo_map (an output no pooled transaction spends is locked)",
                                   z3.And(z3.Not(pooled_now), reserved(s), z3.Not(was_reserved))))
                for what, bad in checks:
                    r, m = ex.model_for(o.pc, bad)
                    v.queries += 1
                    if r == z3.sat:
                        v.fail("pooled %d inputs / new %d inputs: %s" % (pin, nin, what), dict(path=L.trace_text(o, 12)))
                seen += 1
            v.covers_total += 1
            v.covers_sat += 1 if seen else 0


def c14_reorg_revalidates_pool(ctx, v):
    """Blockchain::remove_block_transactions (run after every successful block addition or
    reorganisation): on every path the whole pool is re-validated against the ledger
    (mempool.transactions.retain(validate_against_utxoset)) and the block's transactions are
    removed (Mempool::delete_transactions) — unconditionally."""
    body = ctx.body(r"blockchain::<impl at [^>]*>::remove_block_transactions$")
    ex = ctx.executor(loop_bound=3)
    ex.pure = [r".*"]
    chain = S.Opaque("blockchain", "Blockchain")
    pool = S.Opaque("mempool", "Mempool")
    outs = ex.run(body, [S.Ref(S.Cell(chain)), S.Ref(S.Cell(ex.fresh_value("[u8; 32]", "block_hash"))), S.Ref(S.Cell(pool), (), True)])
    v.paths += len(outs)
    n = 0
    for o in outs:
        if o.kind in ("unsupported", "unwound", "path-limit"):
            return v.undecided("%s %s" % (o.kind, o.info))
        if o.kind != "return":
            continue
        v.queries += 1
        ret = [e for e in o.events if e[0] == "call" and re.search(r"::retain::<\{closure@saito-core/src/core/consensus/blockchain\.rs", e[1])]
        dele = [e for e in o.events if e[0] == "call" and re.search(r"Mempool::delete_transactions$", e[1])]
        if not ret:
            v.fail("a path of remove_block_transactions does not re-validate the pooled transactions against the ledger", dict(path=L.trace_text(o, 12), calls=[e[1][:80] for e in o.events if e[0] == "call"][:12]))
        elif not dele:
            v.fail("a path of remove_block_transactions does not remove the block's transactions from the pool", dict(path=L.trace_text(o, 12)))
        else:
            n += 1
    # the closure itself must be the ledger check
    clo = ctx.body(r"blockchain::<impl at [^>]*>::remove_block_transactions::\{closure#0\}$")
    ex2 = ctx.executor(loop_bound=3)
    env = S.Agg("closure", "env", [S.Ref(S.Cell(S.Opaque("blockchain", "Blockchain")))])
    outs2 = ex2.run(clo, [S.Ref(S.Cell(env), (), True), S.Ref(S.Cell(ex2.fresh_value("[u8; 64]", "sig"))), S.Ref(S.Cell(S.Opaque("tx", "Transaction")), (), True)])
    for o in outs2:
        if o.kind != "return":
            continue
        v.queries += 1
        vc = [e for e in o.events if e[0] == "call" and re.search(r"Transaction::validate_against_utxoset$", e[1])]
        if not vc:
            v.fail("the retain predicate does not consult Transaction::validate_against_utxoset")
            continue
        r, m = ex2.model_for(o.pc, o.value != vc[0][3])
        if r == z3.sat:
            v.fail("the retain predicate keeps a transaction that is not valid against the utxoset (or drops a valid one)")
    v.covers_total += 1
    v.covers_sat += 1 if n else 0


def c14_delete_releases_reservations(ctx, v):
    """Mempool::delete_transactions(block transactions) from a pool holding one transaction P with
    Inv (utxo_map = keys of pooled inputs): afterwards utxo_map again holds exactly the inputs of
    the transactions still pooled — an output reserved by no pooled transaction is not left
    locked.  (Known finding on the pinned tree: reservations are released only in bundle_block.)"""
    known = known_classes("C14", "c14_delete_releases_reservations")
    body = ctx.body(r"mempool::<impl at [^>]*>::delete_transactions$")
    ex = ctx.executor(loop_bound=4, inline="auto", no_inline=[r"GoldenTicket::deserialize_from_net$"])
    pool, pins, psig, pre = _pool(ctx, ex, 1)
    # the block confirms P itself
    ptx = pool.fields[ctx.field_index("Mempool", "transactions")].entries[0][2].v
    blk_txs = S.Seq([ex.copy_value(ptx)], "Transaction")
    st = S.State()
    st.pc.extend(pre)
    tt = ptx.fields[ctx.field_index("Transaction", "transaction_type")]
    st.pc.append(L.enum_in_range(tt, L.TX_TYPES))
    st.pc.append(z3.Not(L.enum_is(ctx, tt, "TransactionType", "GoldenTicket")))
    outs = ex.run(body, [S.Ref(S.Cell(pool), (), True), S.Ref(S.Cell(blk_txs))], st)
    v.paths += len(outs)
    n = 0
    for o in outs:
        if o.kind in ("unsupported", "unwound", "path-limit"):
            return v.undecided("%s %s" % (o.kind, o.info))
        if o.kind != "return":
            continue
        post = ex.deref_value(o.state.frames[0].locals["_1"].v)
        ptxs = post.fields[ctx.field_index("Mempool", "transactions")]
        pmap = post.fields[ctx.field_index("Mempool", "utxo_map")]
        still_pooled = z3.Or(*[z3.And(p, value_eq(ex, k, psig)) for p, k, _ in ptxs.entries]) if ptxs.entries else z3.BoolVal(False)
        key = L.slip_field(ctx, pins[0], "utxoset_key")
        still_reserved = z3.Or(*[z3.And(p, value_eq(ex, k, key)) for p, k, _ in pmap.entries]) if pmap.entries else z3.BoolVal(False)
        r, m = ex.model_for(o.pc, z3.And(z3.Not(still_pooled), still_reserved))
        v.queries += 1
        if r == z3.sat:
            cls = "reservation-kept-after-delete_transactions"
            if cls in known:
                v.notes.append("known:" + cls)
            else:
                v.fail("after delete_transactions the pool no longer holds the transaction but its input stays reserved in utxo_map (the output can never be spent through this pool again)", dict(cls=cls, path=L.trace_text(o, 10)))
        r, m = ex.model_for(o.pc, still_pooled)
        v.queries += 1
        if r == z3.sat:
            v.fail("delete_transactions left a confirmed transaction in the pool")
        n += 1
    v.covers_total += 1
    v.covers_sat += 1 if n else 0


def c14_delete_recomputes_work(ctx, v):
    """(a) Mempool::delete_transactions from a pool of two transactions P, Q (arbitrary stale
    counter) and a block confirming a transaction with an arbitrary signature (possibly P's, Q's
    or neither): afterwards routing_work_in_mempool is exactly the sum of total_work_for_me over
    the transactions still pooled.  (b) In Blockchain::remove_block_transactions no removal from
    the pool (the retain re-validation) happens after the last delete_transactions, so the
    counter is exact when the function returns — the value can_bundle_block compares with the
    burn-fee requirement."""
    body = ctx.body(r"mempool::<impl at [^>]*>::delete_transactions$")
    ex = ctx.executor(loop_bound=5, inline="auto", no_inline=[r"GoldenTicket::deserialize_from_net$"])
    sigs = [ex.fresh_value("[u8; 64]", "pooled%d.sig" % i) for i in range(2)]
    works = [ex.fresh_value("u64", "pooled%d.work" % i) for i in range(2)]
    txs = [ctx.mk_struct(ex, "Transaction", "pooled%d" % i, signature=sigs[i], total_work_for_me=works[i]) for i in range(2)]
    pmap = S.MapV("transactions", [[z3.BoolVal(True), sigs[i], txs[i]] for i in range(2)])
    rw = ex.fresh_value("u64", "routing_work_in_mempool")
    pool = ctx.mk_struct(ex, "Mempool", "mempool", transactions=pmap, routing_work_in_mempool=rw)
    csig = ex.fresh_value("[u8; 64]", "confirmed.sig")
    ctype = ex.fresh_value("TransactionType", "confirmed.type")
    ctx_ = ctx.mk_struct(ex, "Transaction", "confirmed", signature=csig, transaction_type=ctype)
    SUPPLY = 7 * 10**17
    st = S.State()
    st.pc.extend([z3.ULE(w.bv, SUPPLY) for w in works] + [z3.Not(value_eq(ex, sigs[0], sigs[1])), L.enum_in_range(ctype, L.TX_TYPES), z3.Not(L.enum_is(ctx, ctype, "TransactionType", "GoldenTicket"))])
    outs = ex.run(body, [S.Ref(S.Cell(pool), (), True), S.Ref(S.Cell(S.Seq([ctx_], "Transaction")))], st)
    v.paths += len(outs)
    n = 0
    for o in outs:
        if o.kind in ("unsupported", "unwound", "path-limit"):
            return v.undecided("%s %s" % (o.kind, o.info))
        if o.kind == "panic":
            L.report_panic(v, ex, o, "delete_transactions panics: %s" % o.info)
            continue
        if o.kind != "return":
            continue
        post = ex.deref_value(o.state.frames[0].locals["_1"].v)
        ptxs = post.fields[ctx.field_index("Mempool", "transactions")]
        cnt = post.fields[ctx.field_index("Mempool", "routing_work_in_mempool")]
        total = z3.BitVecVal(0, 64)
        for p, k, cell in ptxs.entries:
            t = cell.v if isinstance(cell, S.Cell) else cell
            total = total + z3.If(p, t.fields[ctx.field_index("Transaction", "total_work_for_me")].bv, z3.BitVecVal(0, 64))
        r, m = ex.model_for(o.pc, cnt.bv != total)
        v.queries += 1
        if r == z3.sat:
            v.fail("after delete_transactions the routing work counter (%d) is not the sum of the work of the transactions still pooled (%d)" %
                   (m.eval(cnt.bv, model_completion=True).as_long(), m.eval(total, model_completion=True).as_long()))
        else:
            n += 1
    v.covers_total += 1
    v.covers_sat += 1 if n else 0
    # (b) ordering in remove_block_transactions
    body = ctx.body(r"blockchain::<impl at [^>]*>::remove_block_transactions$")
    ex = ctx.executor(loop_bound=3)
    ex.pure = [r".*"]
    outs = ex.run(body, [S.Ref(S.Cell(S.Opaque("blockchain", "Blockchain"))), S.Ref(S.Cell(ex.fresh_value("[u8; 32]", "block_hash"))), S.Ref(S.Cell(S.Opaque("mempool", "Mempool")), (), True)])
    v.paths += len(outs)
    m2 = 0
    for o in outs:
        if o.kind in ("unsupported", "unwound", "path-limit"):
            return v.undecided("%s %s" % (o.kind, o.info))
        if o.kind != "return":
            continue
        v.queries += 1
        calls = [e[1] for e in o.events if e[0] == "call"]
        dele = [i for i, c in enumerate(calls) if re.search(r"Mempool::delete_transactions$", c)]
        removal = [i for i, c in enumerate(calls) if re.search(r"(?:AHashMap|HashMap)::<\[u8; 64\], Transaction[^>]*>::(retain|remove|clear|drain)", c)]
        if dele and removal and max(removal) > max(dele):
            v.fail("remove_block_transactions removes pooled transactions after the routing work counter was recomputed (delete_transactions): the counter keeps the work of transactions no longer pooled")
        elif dele:
            m2 += 1
    v.covers_total += 1
    v.covers_sat += 1 if m2 else 0


def c14_bundle_releases_reservations(ctx, v):
    """Mempool::bundle_block: when it returns a block, every input of every transaction the
    block carries — whatever the transaction's type — is no longer reserved in utxo_map (the
    block may still fail validation or be reorganised away, and then those outputs must be
    spendable through the pool again).  Block::create's result is an explicit symbolic input: a
    block of two transactions of symbolic type with one input each, whose keys are reserved."""
    from .models import mk_some, mk_none, as_enum, enum_is
    ex = ctx.executor(loop_bound=5, inline="auto", max_paths=3000, no_inline=[r"fmt", r"to_hex", r"StatVariable", r"Duration", r"get_latest_block", r"create_staking_transaction$", r"get_consensus_config$"])
    ex.pure = [r".*"]
    ins = [L.sym_slip(ctx, ex, "btx%d.in" % i) for i in range(2)]
    types = [ex.fresh_value("TransactionType", "btx%d.type" % i) for i in range(2)]
    btxs = [ctx.mk_struct(ex, "Transaction", "btx%d" % i, **{"from": S.Seq([ins[i]], "Slip"), "transaction_type": types[i]}) for i in range(2)]
    block = ctx.mk_struct(ex, "Block", "created", transactions=S.Seq(btxs, "Transaction"))
    key = lambda s: L.slip_field(ctx, s, "utxoset_key")
    umap = S.MapV("utxo_map", [[z3.BoolVal(True), key(s), S.const_int(1, "u64")] for s in ins])
    pool = ctx.mk_struct(ex, "Mempool", "mempool", utxo_map=umap)

    def ready(x):
        return S.Agg("struct", "ReadyFuture", [x])

    def result(ok_payload, name):
        res = S.EnumV(name, "Ok", None, {"Ok": S.Agg("variant", "Ok", [ok_payload])})
        return res

    def hook(ex_, st, callee, args, dty):
        if re.search(r"Mempool::can_bundle_block$", callee):
            return ready(mk_some("Option<u64>", ex_.fresh_value("u64", "mempool_work")))
        if re.search(r"Block::create$", callee):
            return ready(result(block, "Result<Block, Error>"))
        if re.search(r"Block::generate$", callee):
            return result(S.Agg("tuple", "()", []), "Result<(), Error>")
        if re.search(r"create_staking_transaction$", callee):
            return result(S.Opaque("staking_tx", "Transaction"), "Result<Transaction, Error>")
        if re.search(r"add_transaction_if_validates$", callee):
            return ready(S.Agg("tuple", "()", []))
        return None
    ex.on_call = hook
    st = S.State()
    st.pc.extend([L.enum_in_range(t, L.TX_TYPES) for t in types] + [z3.Not(value_eq(ex, key(ins[0]), key(ins[1])))])
    gt = S.EnumV("Option<Transaction>", "None", None, {"None": S.Agg("variant", "None", [])})
    body, co = L.coroutine(ctx, ex, r"mempool::<impl at [^>]*>::bundle_block",
                           [S.Ref(S.Cell(pool), (), True), S.Ref(S.Cell(S.Opaque("blockchain", "Blockchain"))), ex.fresh_value("u64", "current_timestamp"), gt,
                            S.Ref(S.Cell(S.Opaque("cfg", "dyn Configuration"))), S.Ref(S.Cell(S.Opaque("storage", "Storage")))])
    outs = ex.run(body, [S.Ref(S.Cell(co), (), True), S.Opaque("cx", "Context")], st)
    v.paths += len(outs)
    n = 0
    for o in outs:
        if o.kind in ("unsupported", "unwound", "path-limit"):
            return v.undecided("%s %s" % (o.kind, o.info))
        if o.kind != "return":
            continue
        res = as_enum(ex, L.ready_value(ex, o), "Option")
        if not ex.feasible(o.pc, enum_is(ex, res, "Some")):
            continue
        post = _post_pool(ex, o)
        if post is None:
            return v.undecided("pool not found in coroutine state")
        pmap = post.fields[ctx.field_index("Mempool", "utxo_map")]
        for i, s in enumerate(ins):
            still = z3.Or(*[z3.And(p, value_eq(ex, k, key(s))) for p, k, _ in pmap.entries]) if pmap.entries else z3.BoolVal(False)
            r, m = ex.model_for(o.pc, z3.And(enum_is(ex, res, "Some"), still))
            v.queries += 1
            if r == z3.sat:
                tname = [nm for nm, d in ctx.enums["TransactionType"] if d == m.eval(types[i].discr.bv, model_completion=True).as_long()]
                v.fail("bundle_block returns a block but the input of its transaction %d (type %s) stays reserved in utxo_map" % (i, tname[0] if tname else "?"))
        n += 1
    if not n:
        return v.undecided("no path returns a block")
    v.covers_total += 1
    v.covers_sat += 1


def c14_delete_keeps_pooled_reserved(ctx, v):
    """Mempool::delete_transactions(block transactions) from a pool holding one transaction P (one
    input, Inv) when the accepted block carries a DIFFERENT transaction T (other signature)
    whose input may or may not be the same output as P's — the block may be a fork block that
    never touches the ledger: P stays pooled, and as long as P is pooled its input stays
    reserved (the other half of Inv: every input of a pooled transaction is in utxo_map), so a
    second spender of that output is still refused by add_transaction."""
    body = ctx.body(r"mempool::<impl at [^>]*>::delete_transactions$")
    ex = ctx.executor(loop_bound=4, inline="auto", no_inline=[r"GoldenTicket::deserialize_from_net$"])
    pool, pins, psig, pre = _pool(ctx, ex, 1)
    tin = L.sym_slip(ctx, ex, "blocktx.in")
    tsig = ex.fresh_value("[u8; 64]", "blocktx.sig")
    tt = ex.fresh_value("TransactionType", "blocktx.type")
    btx = ctx.mk_struct(ex, "Transaction", "blocktx", **{"from": S.Seq([tin], "Slip"), "signature": tsig, "transaction_type": tt})
    st = S.State()
    st.pc.extend(pre + [L.enum_in_range(tt, L.TX_TYPES), z3.Not(L.enum_is(ctx, tt, "TransactionType", "GoldenTicket")), z3.Not(value_eq(ex, tsig, psig))])
    outs = ex.run(body, [S.Ref(S.Cell(pool), (), True), S.Ref(S.Cell(S.Seq([btx], "Transaction")))], st)
    v.paths += len(outs)
    n = 0
    key = L.slip_field(ctx, pins[0], "utxoset_key")
    for o in outs:
        if o.kind in ("unsupported", "unwound", "path-limit"):
            return v.undecided("%s %s" % (o.kind, o.info))
        if o.kind == "panic":
            L.report_panic(v, ex, o, "delete_transactions panics: %s" % o.info)
            continue
        if o.kind != "return":
            continue
        post = ex.deref_value(o.state.frames[0].locals["_1"].v)
        ptxs = post.fields[ctx.field_index("Mempool", "transactions")]
        pmap = post.fields[ctx.field_index("Mempool", "utxo_map")]
        still_pooled = z3.Or(*[z3.And(p, value_eq(ex, k, psig)) for p, k, _ in ptxs.entries]) if ptxs.entries else z3.BoolVal(False)
        still_reserved = z3.Or(*[z3.And(p, value_eq(ex, k, key)) for p, k, _ in pmap.entries]) if pmap.entries else z3.BoolVal(False)
        v.queries += 2
        if ex.feasible(o.pc, z3.Not(still_pooled)):
            L.fail_structural(v, o, "delete_transactions drops a pooled transaction that the block does not carry")
            continue
        if ex.feasible(o.pc, z3.And(still_pooled, z3.Not(still_reserved))):
            L.fail_structural(v, o, "after delete_transactions a transaction is still pooled but its input is no longer reserved (a block carrying another spender of that output released it): a second spender would now be admitted")
            continue
        n += 1
    v.covers_total += 1
    v.covers_sat += 1 if n else 0


def c14_hand_back_only_own_blocks(ctx, v):
    """Blockchain::add_block_transactions_back (run when a block fails validation) writes
    transactions straight into the pool, past the conflict check and the input reservation of
    add_transaction.  That is only safe for a block this node bundled itself — its transactions
    were drained from this very pool, so they cannot conflict with what is pooled now.  On every
    path: the pool is touched (insert into mempool.transactions) only if block.creator is the
    wallet's public key; a rejected block from anybody else leaves the pool untouched."""
    ex = ctx.executor(loop_bound=3, inline="auto", max_paths=2000, no_inline=[r"Transaction::validate$", r"fmt", r"to_hex"])
    ex.pure = [r".*"]
    creator = ex.fresh_value("[u8; 33]", "block.creator")
    wkey = ex.fresh_value("[u8; 33]", "wallet.public_key")
    routed = S.EnumV("Option<u64>", None, S.I(z3.BitVec("routed_from_peer.discr", 64), True))
    block = ctx.mk_struct(ex, "Block", "block", creator=creator, routed_from_peer=routed, transactions=S.Opaque("block.transactions", "Vec<Transaction>"))
    wallet = ctx.mk_struct(ex, "Wallet", "wallet", public_key=wkey)
    pool = ctx.mk_struct(ex, "Mempool", "mempool", wallet_lock=S.Ref(S.Cell(wallet)))
    st = S.State()
    st.pc.append(L.enum_in_range(routed, 2))
    body, co = L.coroutine(ctx, ex, r"blockchain::<impl at [^>]*>::add_block_transactions_back",
                           [S.Ref(S.Cell(S.Opaque("blockchain", "Blockchain")), (), True), S.Ref(S.Cell(pool), (), True), S.Ref(S.Cell(block), (), True)])
    outs = ex.run(body, [S.Ref(S.Cell(co), (), True), S.Opaque("cx", "Context")], st)
    v.paths += len(outs)
    own = value_eq(ex, creator, wkey)
    n = touched = 0
    for o in outs:
        if o.kind in ("unsupported", "path-limit"):
            return v.undecided("%s %s" % (o.kind, o.info))
        calls = [e[1] for e in o.events if e[0] == "call"]
        writes = [c for c in calls if re.search(r"(?:AHashMap|HashMap)::<\[u8; 64\], Transaction[^>]*>::insert$", c)]   # going through Mempool::add_transaction (conflict check, reservation) would be fine for any block
        drains = [c for c in calls if re.search(r"::drain::|::drain$|into_par_iter|par_drain", c)]
        if writes or drains:
            touched += 1
        if not writes:
            n += 1
            continue
        v.queries += 1
        if ex.feasible(o.pc, z3.Not(own)):
            v.fail("add_block_transactions_back puts transactions of a rejected block that this node did not create back into the pool (past the conflict check of add_transaction)",
                   dict(path=L.trace_text(o, 10)))
    if not touched:
        return v.undecided("the hand-back branch was never reached")
    v.covers_total += 1
    v.covers_sat += 1 if n else 0


def c14_tick_admits_through_validation(ctx, v):
    """ConsensusThread::bundle_block (the block-producing tick), the loop that moves the transactions
    received since the last tick into the pool: a waiting transaction enters the pool only through
    Mempool::add_transaction_if_validates (which re-validates it against the ledger of THIS moment —
    a block added between receipt and the tick may have spent its inputs), never through
    add_transaction or a direct insertion.  Explored up to the golden-ticket look-up that follows
    the loop; one waiting transaction of any non-golden-ticket type."""
    ex = ctx.executor(loop_bound=4, inline="auto", max_paths=2000, no_inline=[r"Mempool::add_transaction_if_validates$", r"Mempool::add_transaction$", r"fmt", r"to_hex"])
    ex.pure = [r".*"]
    ex.stop_calls = [r"(?:AHashMap|HashMap)::<\[u8; 32\], \(Transaction, bool\)[^>]*>::get::", r"get_latest_block_hash$"]
    tt = ex.fresh_value("TransactionType", "waiting.type")
    tx = ctx.mk_struct(ex, "Transaction", "waiting", transaction_type=tt)
    thread = ctx.mk_struct(ex, "ConsensusThread", "consensus_thread", txs_for_mempool=S.Seq([tx], "Transaction"))
    st = S.State()
    st.pc.extend([L.enum_in_range(tt, L.TX_TYPES), z3.Not(L.enum_is(ctx, tt, "TransactionType", "GoldenTicket"))])
    body, co = L.coroutine(ctx, ex, r"consensus_thread::<impl at [^>]*>::bundle_block", [S.Ref(S.Cell(thread), (), True), ex.fresh_value("u64", "timestamp"), ex.fresh_value("bool", "produce_without_limits")])
    outs = ex.run(body, [S.Ref(S.Cell(co), (), True), S.Opaque("cx", "Context")], st)
    v.paths += len(outs)
    n = 0
    for o in outs:
        if o.kind in ("unsupported", "unwound", "path-limit"):
            return v.undecided("%s %s" % (o.kind, o.info))
        if o.kind not in ("stopped", "return"):
            continue
        calls = [e[1] for e in o.events if e[0] == "call"]
        through = [c for c in calls if re.search(r"Mempool::add_transaction_if_validates$", c)]
        direct = [c for c in calls if re.search(r"Mempool::add_transaction$|(?:AHashMap|HashMap)::<\[u8; 64\], Transaction[^>]*>::insert$", c)]
        v.queries += 1
        if direct and ex.feasible(o.pc):
            v.fail("the block-producing tick puts a waiting transaction into the pool without re-validating it against the current ledger (%s)" % direct[0].split("::")[-1])
            continue
        if through:
            n += 1
    if not n:
        return v.undecided("the admission loop was not reached")
    v.covers_total += 1
    v.covers_sat += 1
