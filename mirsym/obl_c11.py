"""C11 — no single peer input crashes a handler (engine M, single-input / single-handler fragment).

Every obligation explores one event handler with the peer-controlled input symbolic and reports
the panic sites that are reachable *because of that input* (the path condition of the panic
mentions only input / state symbols, no result of an uninterpreted callee)."""
import re
import z3
from z3 import z3util
from . import sym as S, lib as L
from .run import known_classes
from .models import mk_some, mk_none


def _input_driven(o):
    """a panic site counts when it is an explicit assertion / unreachable / panic in the encoded
    code, or an unwrap/expect of a value that does NOT come from an uninterpreted callee (whose
    None/Err answers may be impossible in reality)"""
    info = o.info or ""
    mm = re.search(r"\[value from: (.*)\]", info)
    if mm:
        names = mm.group(1)
        if re.search(r"ret:|await:|havoc:|uninit!|insert-result|remove-result|residual", names):
            return False
    return True


def _site(o):
    info = o.info or ""
    info = re.sub(r"!\d+", "", info)
    return info[:160]


def _report(v, ex, outs, pid, obligation, label, extra_filter=None):
    known = known_classes(pid, obligation)
    seen_return = 0
    sites = {}
    for o in outs:
        if o.kind in ("unsupported", "unwound", "path-limit"):
            v.undecided("%s: %s %s" % (label, o.kind, o.info))
            return False
        if o.kind == "return":
            seen_return += 1
        if o.kind != "panic":
            continue
        if not _input_driven(o):
            continue
        if extra_filter and not extra_filter(o):
            continue
        r, m = ex.model_for(o.pc)
        v.queries += 1
        if r != z3.sat:
            continue
        sites.setdefault(_site(o), o)
    for site, o in sorted(sites.items()):
        cls = "%s: %s" % (label, site)
        if cls in known:
            v.notes.append("known:" + cls)
        else:
            v.notes.append("unlisted:" + cls)
            v.fail("%s: a peer-controlled input makes the handler panic: %s" % (label, site), dict(cls=cls, path=L.trace_text(o, 10)))
    v.covers_total += 1
    v.covers_sat += 1 if seen_return else 0
    return True


def c11_routing_dispatch(ctx, v):
    """RoutingThread::process_incoming_message for a message of every type (the tag is the peer's
    choice): no arm of the dispatch panics by itself (unreachable!/unwrap on a value fixed by the
    message tag)."""
    ex = ctx.executor(loop_bound=3, max_paths=4000)
    ex.pure = [r".*"]
    msg = ex.fresh_value("Message", "message")
    rt = S.Opaque("routing_thread", "RoutingThread")
    # the answer of the key-list intake is peer-drivable: Err when the peer exceeds its rate limit
    kl = S.EnumV("Result<(), std::io::Error>", None, S.I(z3.BitVec("key_list_update_result.discr", 64), True))

    def hook(ex_, st_, callee, args, dty):
        if re.search(r"Network::handle_received_key_list$", callee):
            return S.Agg("struct", "ReadyFuture", [kl])
        return None
    ex.on_call = hook
    st = S.State()
    st.pc.append(L.enum_in_range(msg, 15))
    body, co = L.coroutine(ctx, ex, r"routing_thread::<impl at [^>]*>::process_incoming_message", [S.Ref(S.Cell(rt), (), True), ex.fresh_value("u64", "peer_index"), msg])
    outs = ex.run(body, [S.Ref(S.Cell(co), (), True), S.Opaque("cx", "Context")], st)
    v.paths += len(outs)
    _report(v, ex, outs, "C11", "c11_routing_dispatch", "process_incoming_message")


def c11_handshake_response_total(ctx, v):
    """Peer::handle_handshake_response from an arbitrary peer state and response: the handler
    returns (Ok or Err); no assertion on peer-supplied fields."""
    from . import obl_c17
    vv = type(v)()
    # reuse the C17 exploration and look at its panic outcomes
    ex = ctx.executor(loop_bound=3, inline="auto", max_paths=4000, no_inline=[r"::serialize$", r"get_my_services$"])
    ch, _ = obl_c17._opt(ex, "challenge_for_peer", "[u8; 32]")
    pk, _ = obl_c17._opt(ex, "peer.public_key", "[u8; 33]")
    spc = S.EnumV("Option<PeerConfig>", None, S.I(z3.BitVec("static_peer_config.discr", 64), True))
    status = ex.fresh_value("PeerStatus", "peer_status")
    peer = ctx.mk_struct(ex, "Peer", "peer", challenge_for_peer=ch, public_key=pk, static_peer_config=spc, peer_status=status)
    resp = ctx.mk_struct(ex, "HandshakeResponse", "response")
    V = ex.fresh_value("bool", "V")

    def hook(ex_, st, callee, args, dty):
        if re.search(r"(?:^|::)crypto::verify$|^verify$", callee):
            return V
        if re.search(r"(?:^|::)crypto::sign$|^sign$", callee):
            return ex_.fresh_value("[u8; 64]", "signature!%d" % next(ex_.fresh_counter))
        return None
    ex.on_call = hook
    ex.pure = [r".*"]
    st = S.State()
    st.pc.append(L.enum_in_range(status, 3))
    wallet = ctx.mk_struct(ex, "Wallet", "wallet")
    body, co = L.coroutine(ctx, ex, r"peer::<impl at [^>]*>::handle_handshake_response",
                           [S.Ref(S.Cell(peer), (), True), resp, S.Ref(S.Cell(S.Opaque("io", "dyn InterfaceIO"))), S.Ref(S.Cell(wallet)),
                            S.Opaque("configs_lock", "Arc<RwLock<dyn Configuration>>"), ex.fresh_value("u64", "current_time")])
    outs = ex.run(body, [S.Ref(S.Cell(co), (), True), S.Opaque("cx", "Context")], st)
    v.paths += len(outs)
    # the version comparison / config answers are callee results only in name: is_same_minor_version is inlined
    _report(v, ex, outs, "C11", "c11_handshake_response_total", "handle_handshake_response")


def c11_gt_payload(ctx, v):
    """Mempool::add_golden_ticket(tx) for a GoldenTicket-typed transaction whose data field is any
    byte string of length 0..=200: the handler returns."""
    ex = ctx.executor(loop_bound=3, inline="auto", max_paths=2000, no_inline=[r"serialize_for_net$"])
    ex.pure = [r".*"]
    data = ex.fresh_value("Vec<u8>", "tx.data")
    tx = ctx.mk_struct(ex, "Transaction", "tx", data=data)
    pool = ctx.mk_struct(ex, "Mempool", "mempool", golden_tickets=S.MapV("golden_tickets", []))
    st = S.State()
    st.pc.append(z3.ULE(data.len.bv, 200))
    body, co = L.coroutine(ctx, ex, r"mempool::<impl at [^>]*>::add_golden_ticket", [S.Ref(S.Cell(pool), (), True), tx])
    outs = ex.run(body, [S.Ref(S.Cell(co), (), True), S.Opaque("cx", "Context")], st)
    v.paths += len(outs)
    _report(v, ex, outs, "C11", "c11_gt_payload", "add_golden_ticket")


def c11_ghost_request_any_peer(ctx, v):
    """RoutingThread::process_ghost_chain_request for a request from a peer in any handshake
    state (public key known or not yet): the handler returns."""
    ex = ctx.executor(loop_bound=3, max_paths=2000)
    ex.pure = [r".*"]
    pk = S.EnumV("Option<[u8; 33]>", None, S.I(z3.BitVec("peer.public_key.discr", 64), True))

    def hook(ex_, st, callee, args, dty):
        if re.search(r"PeerCollection::find_peer_by_index$", callee):
            peer = ctx.mk_struct(ex_, "Peer", "peer", public_key=pk)
            known_peer = z3.Bool("peer_is_known")
            return ("__fork__", [(known_peer, mk_some(dty, S.Ref(S.Cell(peer)))), (z3.Not(known_peer), mk_none(dty))])
        return None
    ex.on_call = hook
    rt = S.Opaque("routing_thread", "RoutingThread")
    body, co = L.coroutine(ctx, ex, r"routing_thread::<impl at [^>]*>::process_ghost_chain_request",
                           [S.Ref(S.Cell(rt)), ex.fresh_value("u64", "block_id"), ex.fresh_value("[u8; 32]", "block_hash"), ex.fresh_value("[u8; 32]", "fork_id"), ex.fresh_value("u64", "peer_index")])
    outs = ex.run(body, [S.Ref(S.Cell(co), (), True), S.Opaque("cx", "Context")])
    v.paths += len(outs)
    _report(v, ex, outs, "C11", "c11_ghost_request_any_peer", "process_ghost_chain_request")


def c11_verify_block_total(ctx, v):
    """VerificationThread::verify_block for a fetched buffer that decodes to a block: whatever
    Block::generate answers (it returns Err for a block that spends an output twice) the handler
    returns; a hostile block costs the sender reputation, not the node its life."""
    ex = ctx.executor(loop_bound=3, max_paths=2000)
    ex.pure = [r".*"]
    gen_ok = z3.Bool("block_generate_ok")
    dec_ok = z3.Bool("block_decodes")

    def hook(ex_, st, callee, args, dty):
        if re.search(r"(?:^|::)Block::generate$", callee):
            from .models import mk_ok, mk_err
            return ("__fork__", [(gen_ok, mk_ok(dty, S.UNIT)), (z3.Not(gen_ok), mk_err(dty, S.Opaque("double-spend detected", "io::Error")))])
        if re.search(r"(?:^|::)Block::deserialize_from_net$", callee):
            from .models import mk_ok, mk_err
            blk = S.Opaque("decoded_block", "Block")
            return ("__fork__", [(dec_ok, mk_ok(dty, blk)), (z3.Not(dec_ok), mk_err(dty, S.Opaque("decode error", "io::Error")))])
        return None
    ex.on_call = hook
    vt = S.Opaque("verification_thread", "VerificationThread")
    body, co = L.coroutine(ctx, ex, r"verification_thread::<impl at [^>]*>::verify_block",
                           [S.Ref(S.Cell(vt), (), True), S.Ref(S.Cell(ex.fresh_value("Vec<u8>", "buffer"))), ex.fresh_value("u64", "peer_index"), ex.fresh_value("[u8; 32]", "block_hash"), ex.fresh_value("u64", "block_id")])
    outs = ex.run(body, [S.Ref(S.Cell(co), (), True), S.Opaque("cx", "Context")])
    v.paths += len(outs)
    _report(v, ex, outs, "C11", "c11_verify_block_total", "verify_block")


def c11_network_handshake_gate(ctx, v):
    """Network::handle_handshake_response: a response the peer-level step rejected, from a peer in
    any state (already authenticated or not), ends in a plain return — never in the reconnection
    bookkeeping whose `expect` assumes the peer entry still exists (same obligation as C17
    c17_network_gate)."""
    from . import obl_c17
    obl_c17.c17_network_gate(ctx, v)


def c11_shared_ancestor_total(ctx, v):
    """Blockchain::generate_last_shared_ancestor — run by the routing thread on the
    latest-block id and fork id a peer puts in a BlockchainRequest / GhostChainRequest, before
    any handshake — for EVERY peer id, fork id and own tip height: it returns (no arithmetic
    panic, no index panic) in both modes (peer ahead / peer behind).  The longest-chain index
    answers every look-up with some hash (a miss continues the checkpoint loop exactly like a
    mismatch does), so the walk is driven only by the peer's two values and the own tip."""
    from .models import mk_some
    body = ctx.body(r"blockchain::<impl at [^>]*>::generate_last_shared_ancestor$")
    ex = ctx.executor(loop_bound=20, inline="auto", max_paths=4000, no_inline=[r"get_longest_chain_block_hash_at_block_id$", r"get_latest_block_id$", r"hex::", r"to_hex"])
    ex.pure = [r".*"]
    mine = ex.fresh_value("u64", "my_tip")
    peer = ex.fresh_value("u64", "peer_latest_block_id")
    fid = ex.fresh_value("[u8; 32]", "peer_fork_id")

    def hook(ex_, st, callee, args, dty):
        if re.search(r"get_longest_chain_block_hash_at_block_id$", callee):
            h = ex_.fresh_value("[u8; 32]", "own_hash!%d" % next(ex_.fresh_counter))
            # the comparison at a checkpoint reads two bytes; "first byte differs" and "first equal, second differs" leave
            # the walk in the same state, so the first case is folded into the second (every even byte agrees with the fork id)
            st.pc.extend([z3.Select(h.arr, z3.BitVecVal(2 * i, 64)) == z3.Select(fid.arr, z3.BitVecVal(2 * i, 64)) for i in range(16)])
            return mk_some(dty, h)
        if re.search(r"get_latest_block_id$", callee):
            return ex_.copy_value(mine)
        return None
    ex.on_call = hook
    outs = ex.run(body, [S.Ref(S.Cell(S.Opaque("blockchain", "Blockchain"))), peer, fid], S.State())
    v.paths += len(outs)
    rets = 0
    for o in outs:
        if o.kind in ("unsupported", "unwound", "path-limit"):
            return v.undecided("%s %s" % (o.kind, o.info))
        if o.kind == "panic":
            r, m = ex.model_for(o.pc)
            v.queries += 1
            if r == z3.sat:
                wit = dict(peer_latest_block_id=m.eval(peer.bv, model_completion=True).as_long(), my_tip=m.eval(mine.bv, model_completion=True).as_long(), panic=o.info)
                if L.depends_on_unknowns(o):
                    return v.undecided("a panic path depends on an unmodelled callee: %s" % o.info)
                v.fail("a peer-chosen latest block id / fork id makes generate_last_shared_ancestor panic (peer id %d, own tip %d): %s" % (wit["peer_latest_block_id"], wit["my_tip"], o.info), wit)
            elif r != z3.unsat:
                return v.undecided("solver: no verdict on a panic path")
            continue
        if o.kind == "return":
            rets += 1
    v.covers_total += 1
    v.covers_sat += 1 if rets else 0


def c11_fetched_block_decoder_total(ctx, v):
    """VerificationThread::verify_block hands the bytes a peer served to
    Block::deserialize_from_net: for every buffer the decoder returns Ok or Err (same obligation
    as C10 c10_m_block; verify_block's own handling of both outcomes is c11_verify_block_total)."""
    from . import obl_c10
    obl_c10.c10_m_block(ctx, v)


def c11_tx_validate_total(ctx, v):
    """Transaction::validate — run by the verification thread on every transaction a peer sends
    and on every transaction of a fetched block — for transactions of EVERY type with 0, 1 or 3
    inputs and 0..=2 outputs, every slip type / amount / index symbolic, signature and routing
    verdicts free: it returns true or false; no index, unwrap or arithmetic panic that is driven
    by the transaction's own content (amounts within the token supply, slip indices < 255)."""
    from . import obl_c02
    val = ctx.body(r"transaction::<impl at [^>]*>::validate$")
    seen = 0
    sizes = [(a, b) for a in (0, 1, 3) for b in (0, 1, 2)]   # 3 or more outputs: the bound-group scan over the outputs does not stay within the loop bound (stated)
    for nin, nout in sizes:
        ex = ctx.executor(loop_bound=max(nin, nout) + 8, inline="auto", max_paths=8000, no_inline=[r"verify_signature$", r"validate_routing_path$", r"is_slip_unlocked$", r"fmt", r"to_hex", r"to_base58"])
        ex.pure = [r".*"]

        def hook(ex_, st, callee, args, dty):
            # verdicts of the cryptographic / ledger questions are explicit free inputs of this obligation
            if re.search(r"verify_signature$|validate_routing_path$", callee):   # is_slip_unlocked stays an unknown: it guards the key parse that follows it
                return z3.Bool("verdict:%s!%d" % (callee.split("::")[-1], next(ex_.fresh_counter)))
            return None
        ex.on_call = hook
        L.install_slip_key_model(ctx, ex)
        tx, ins, outs_, ttype, pre = obl_c02._tx(ctx, ex, nin, nout)
        SUP = 7 * 10**17
        pre = pre + [z3.ULE(L.slip_field(ctx, s, "amount").bv, SUP) for s in ins + outs_] + [z3.ULT(L.slip_field(ctx, s, "slip_index").bv, 255) for s in ins + outs_]
        st = S.State()
        st.pc.extend(pre)
        outs = ex.run(val, [S.Ref(S.Cell(tx)), S.Ref(S.Cell(S.Opaque("utxoset", "AHashMap"))), S.Ref(S.Cell(S.Opaque("blockchain", "Blockchain"))), z3.BoolVal(True)], st)
        v.paths += len(outs)
        for o in outs:
            if o.kind in ("unsupported", "unwound", "path-limit"):
                return v.undecided("%d in / %d out: %s %s" % (nin, nout, o.kind, o.info))
            if o.kind == "return":
                seen += 1
            if o.kind != "panic" or not _input_driven(o):
                continue
            r, m = ex.model_for(o.pc)
            v.queries += 1
            if r == z3.sat:
                if L.depends_on_unknowns(o):
                    continue    # hinges on an unmodelled callee's answer: not judged (stated)
                tname = [nm for nm, d in ctx.enums["TransactionType"] if d == m.eval(ttype.discr.bv, model_completion=True).as_long()]
                v.fail("a %s transaction with %d input(s) and %d output(s) makes Transaction::validate panic: %s" % (tname[0] if tname else "?", nin, nout, o.info))
            elif r != z3.unsat:
                return v.undecided("solver: no verdict on a panic path")
    v.covers_total += 1
    v.covers_sat += 1 if seen else 0
