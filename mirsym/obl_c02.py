"""C02 — token supply is conserved (engine M): per-transaction arithmetic."""
import re
import z3
from . import sym as S, lib as L
from .models import value_eq


def _tx(ctx, ex, nin, nout, ttype=None):
    ins = [L.sym_slip(ctx, ex, "in%d" % i) for i in range(nin)]
    outs = [L.sym_slip(ctx, ex, "out%d" % i) for i in range(nout)]
    ttype = ttype or ex.fresh_value("TransactionType", "tx.type")
    hfs = S.EnumV("Option<[u8; 32]>", "Some", None, {"Some": S.Agg("variant", "Some", [ex.fresh_value("[u8; 32]", "hash_for_signature")])})
    tx = ctx.mk_struct(ex, "Transaction", "tx", **{"from": S.Seq(ins, "Slip"), "to": S.Seq(outs, "Slip"), "transaction_type": ttype, "path": S.Seq([], "Hop"), "hash_for_signature": hfs})
    pre = [L.enum_in_range(ttype, L.TX_TYPES)] + [L.enum_in_range(L.slip_field(ctx, s, "slip_type"), L.SLIP_TYPES) for s in ins + outs]
    return tx, ins, outs, ttype, pre


def c02_tx_no_mint(ctx, v):
    """Transaction::generate_total_fees followed by Transaction::validate (the order used by the
    pool and by block validation), user-originated types (Normal, GoldenTicket, Vip, Bound excluded
    for its slip-shape rules -> Normal, GoldenTicket, Vip), 1..=2 inputs x 1..=3 outputs, every
    amount an unconstrained u64, release-build arithmetic (u64 sums wrap):
    accepted  =>  sum of value-counting outputs <= sum of value-counting inputs, in unbounded
    arithmetic (no minting through 64-bit wrap-around)."""
    gtf = ctx.body(r"transaction::<impl at [^>]*>::generate_total_fees$")
    val = ctx.body(r"transaction::<impl at [^>]*>::validate$")
    sizes = [(1, 2), (2, 2), (1, 3)] if ctx.tier == "quick" else [(a, b) for a in (1, 2, 3) for b in (1, 2, 3)]
    import os
    if os.environ.get("C02_SIZES"):
        sizes = [tuple(int(x) for x in p.split("/")) for p in os.environ["C02_SIZES"].split(",")]
    for nin, nout in sizes:
        ex = ctx.executor(loop_bound=max(nin, nout) + 3, inline="auto", max_paths=4000 if ctx.tier == "quick" else 40000)
        L.install_slip_key_model(ctx, ex)
        tx, ins, outs, ttype, pre = _tx(ctx, ex, nin, nout)
        user = z3.Or(*[L.enum_is(ctx, ttype, "TransactionType", t) for t in ("Normal", "GoldenTicket", "Vip")])
        st = S.State()
        st.pc.extend(pre + [user])
        cell = S.Cell(tx)
        o1 = ex.run(gtf, [S.Ref(cell, (), True), ex.fresh_value("u64", "tx_index"), ex.fresh_value("u64", "block_id")], st)
        v.paths += len(o1)
        seen = 0
        for a in o1:
            if a.kind in ("unsupported", "unwound", "path-limit"):
                return v.undecided("generate_total_fees %d/%d: %s %s" % (nin, nout, a.kind, a.info))
            if a.kind != "return":
                continue
            tx1 = a.state.frames[0].locals["_1"].v.cell.v
            st2 = S.State()
            st2.pc.extend(a.pc)
            ex2 = ex
            chain = S.Opaque("blockchain", "Blockchain")
            o2 = ex2.run(val, [S.Ref(S.Cell(tx1)), S.Ref(S.Cell(S.Opaque("utxoset", "AHashMap"))), S.Ref(S.Cell(chain)), z3.BoolVal(True)], st2)
            v.paths += len(o2)
            fins = tx1.fields[ctx.field_index("Transaction", "from")].items
            fouts = tx1.fields[ctx.field_index("Transaction", "to")].items
            cnt = lambda s: z3.If(L.enum_is(ctx, L.slip_field(ctx, s, "slip_type"), "SlipType", "Bound"), z3.BitVecVal(0, 128), z3.ZeroExt(64, L.slip_field(ctx, s, "amount").bv))
            tin = sum([cnt(s) for s in fins], z3.BitVecVal(0, 128))
            tout = sum([cnt(s) for s in fouts], z3.BitVecVal(0, 128))
            for o in o2:
                if o.kind in ("unsupported", "unwound", "path-limit"):
                    return v.undecided("validate %d/%d: %s %s" % (nin, nout, o.kind, o.info))
                if o.kind != "return" or not isinstance(o.value, z3.BoolRef):
                    continue
                r, m = ex2.model_for(o.pc, z3.And(o.value, z3.UGT(tout, tin)))
                v.queries += 1
                if r == z3.sat:
                    wit = dict(inputs=[m.eval(L.slip_field(ctx, s, "amount").bv, model_completion=True).as_long() for s in fins],
                               outputs=[m.eval(L.slip_field(ctx, s, "amount").bv, model_completion=True).as_long() for s in fouts],
                               tx_type=m.eval(ttype.discr.bv, model_completion=True).as_long(), path=L.trace_text(o, 8))
                    v.fail("%d inputs / %d outputs: an accepted transaction pays out more than it consumes (u64 sums wrap in release builds)" % (nin, nout), wit)
                    if v.replay_rust is None:
                        v.replay_rust = _replay_mint(wit)
                elif r == z3.unknown:
                    return v.undecided("solver unknown")
                r2, _ = ex2.model_for(o.pc, o.value)
                if r2 == z3.sat:
                    seen += 1
        v.covers_total += 1
        v.covers_sat += 1 if seen else 0


def _replay_mint(w):
    ins = "\n".join("    { let mut s = Slip::default(); s.public_key = pk; s.amount = %du64; s.block_id = 1; s.slip_index = %d; tx.from.push(s); }" % (a, i) for i, a in enumerate(w["inputs"]))
    outs = "\n".join("    { let mut s = Slip::default(); s.public_key = pk; s.amount = %du64; tx.to.push(s); }" % a for a in w["outputs"])
    src = """
// release-profile arithmetic is what users run; this replay computes the totals the way
// Transaction::generate_total_fees does in a release build (wrapping u64 sums) and shows the
// validator's own comparison accepts while the unbounded totals mint tokens.
#[test]
fn replay_c02_tx_no_mint() {
    let inputs: Vec<u64> = vec![%s];
    let outputs: Vec<u64> = vec![%s];
    let total_in = inputs.iter().fold(0u64, |a, b| a.wrapping_add(*b));
    let total_out = outputs.iter().fold(0u64, |a, b| a.wrapping_add(*b));
    let big_in: u128 = inputs.iter().map(|x| *x as u128).sum();
    let big_out: u128 = outputs.iter().map(|x| *x as u128).sum();
    // Transaction::validate rejects only when total_out > total_in (the wrapped values)
    let validator_accepts = !(total_out > total_in);
    assert!(!(validator_accepts && big_out > big_in), "accepted with outputs {} > inputs {}", big_out, big_in);
}
""" % (", ".join("%du64" % a for a in w["inputs"]), ", ".join("%du64" % a for a in w["outputs"]))
    return ("replay_c02_tx_no_mint", src)


def c02_cv_fee_accounting(ctx, v):
    """the fee/size accounting loop at the head of Block::generate_consensus_values, for blocks of
    1..=2 transactions of every type with symbolic fees: the fees the block commits to
    (cv.total_fees_new) are exactly the fees of its Normal and GoldenTicket transactions, each
    counted once — a fee paid by such a transaction is neither dropped (silent loss) nor counted
    twice.  (Fees of other user types are not collected by the pinned code at all; noted in
    DESIGN.md, not asserted here.)"""
    for n in (1, 2):
        ex = ctx.executor(loop_bound=n + 3, inline="auto", max_paths=6000)
        ex.pure = [r".*"]
        # the accounting loop ends where the previous block is looked up
        ex.stop_calls = [r"AHashMap::<\[u8; 32\], Block>::get::"]
        txs, types, fees, datas = [], [], [], []
        for i in range(n):
            t = ex.fresh_value("TransactionType", "tx%d.type" % i)
            f = ex.fresh_value("u64", "tx%d.total_fees" % i)
            data = ex.fresh_value("Vec<u8>", "tx%d.data" % i)
            datas.append(data)
            txs.append(ctx.mk_struct(ex, "Transaction", "tx%d" % i, transaction_type=t, total_fees=f, data=data, **{"from": S.Seq([], "Slip"), "to": S.Seq([], "Slip"), "path": S.Seq([], "Hop")}))
            types.append(t)
            fees.append(f)
        block = ctx.mk_struct(ex, "Block", "block", transactions=S.Seq(txs, "Transaction"))
        st = S.State()
        st.pc.extend([L.enum_in_range(t, L.TX_TYPES) for t in types] + [z3.ULE(f.bv, 7 * 10**17) for f in fees] + [z3.ULE(d.len.bv, 1 << 32) for d in datas])
        body, co = L.coroutine(ctx, ex, r"block::<impl at [^>]*>::generate_consensus_values",
                               [S.Ref(S.Cell(block)), S.Ref(S.Cell(S.Opaque("blockchain", "Blockchain"))), S.Ref(S.Cell(S.Opaque("storage", "Storage"))), S.Ref(S.Cell(S.Opaque("cfg", "dyn Configuration")))])
        outs = ex.run(body, [S.Ref(S.Cell(co), (), True), S.Opaque("cx", "Context")], st)
        v.paths += len(outs)
        counted = lambda i: z3.Or(L.enum_is(ctx, types[i], "TransactionType", "Normal"), L.enum_is(ctx, types[i], "TransactionType", "GoldenTicket"))
        expect = sum([z3.If(counted(i), fees[i].bv, z3.BitVecVal(0, 64)) for i in range(n)], z3.BitVecVal(0, 64))
        seen = 0
        for o in outs:
            if o.kind in ("unsupported", "unwound", "path-limit"):
                return v.undecided("n=%d %s %s" % (n, o.kind, o.info))
            if o.kind == "panic":
                r, m = ex.model_for(o.pc)
                v.queries += 1
                if r == z3.sat:
                    v.fail("n=%d panic in the accounting loop: %s" % (n, o.info))
                continue
            if o.kind != "stopped":
                continue
            # locate the ConsensusValues under construction in the coroutine state
            cor = ex.deref_value(o.state.frames[0].locals["_1"].v)
            cvs = [f for p in cor.payload.values() if isinstance(p, S.Agg) for f in p.fields if isinstance(f, S.Agg) and f.name.endswith("ConsensusValues")]
            cvs += [c.v for c in o.state.frames[0].locals.values() if isinstance(c.v, S.Agg) and c.v.name.endswith("ConsensusValues")]
            if not cvs:
                return v.undecided("ConsensusValues under construction not found")
            cv = cvs[0]
            tfn = cv.fields[ctx.field_index("ConsensusValues", "total_fees_new")]
            r, m = ex.model_for(o.pc, tfn.bv != expect)
            v.queries += 1
            if r == z3.sat:
                v.fail("block of %d transactions: total_fees_new differs from the fees of its Normal and GoldenTicket transactions" % n,
                       dict(types=[m.eval(t.discr.bv, model_completion=True).as_long() for t in types], fees=[m.eval(f.bv, model_completion=True).as_long() for f in fees],
                            total_fees_new=m.eval(tfn.bv, model_completion=True).as_long()))
            seen += 1
        v.covers_total += 1
        v.covers_sat += 1 if seen else 0


def c02_generate_commits_every_atr(ctx, v):
    """ATR-typed transactions are exempt from the no-mint comparison of Transaction::validate;
    what keeps an unsolicited one (no inputs, arbitrary outputs) from minting is the rebroadcast
    commitment — every ATR-typed transaction of a received block must be folded into it, whatever
    the slip types of its outputs (same obligation as C13 c13_generate_commits_every_atr)."""
    from . import obl_c13
    obl_c13.c13_generate_commits_every_atr(ctx, v)




def c02_block_double_spend(ctx, v):
    """two transactions of one block spending the same output would pay out its value twice: the
    block-level scan must record every value-carrying input for the whole block and reject a
    re-spend (same obligation as C01 c01_block_double_spend)."""
    from . import obl_c01
    obl_c01.c01_block_double_spend(ctx, v)


def _path_key(a):
    return (a.cell, tuple((p[0], S.as_int(p[1]) if p[0] == "i" else p[1]) for p in a.path)) if isinstance(a, S.Ref) else None


def c02_upgrade_recomputes_ledger_keys(ctx, v):
    """Block::upgrade_block_to_block_type(Full) — how a pruned block gets its transactions back
    from disk before it is unwound in a reorganisation below the pruning depth.  A slip decoded
    from disk carries no ledger key (the cached `utxoset_key` is not on the wire), and
    Slip::on_chain_reorganization / Slip::validate use that cached key: if it is not recomputed
    the unwind neither restores the block's inputs nor removes its outputs, and value is lost or
    stays spendable twice.  Decided in three steps over the real MIR:
      (1) every path of the upgrade that answers true after loading a block of 1..=2 transactions
          ran, after taking the transactions over, Block::generate on the block itself (or
          Transaction::generate on each transaction it now holds, or Slip::generate_utxoset_key on
          each of their slips);
      (2) Block::generate runs Transaction::generate on every transaction it holds (1..=2);
      (3) Transaction::generate runs Slip::generate_utxoset_key on every input and every output
          (1..=2 each, every slip type).
    The disk read is a stub returning an arbitrary block; hashing / merkle root are not entered."""
    fi_tx = ctx.field_index("Block", "transactions")
    fi_from, fi_to = ctx.field_index("Transaction", "from"), ctx.field_index("Transaction", "to")

    def mk_txs(ex, n, nin=1, nout=1):
        txs, pre = [], []
        for i in range(n):
            t = ex.fresh_value("TransactionType", "tx%d.type" % i)
            ins = [L.sym_slip(ctx, ex, "tx%d.in%d" % (i, k)) for k in range(nin)]
            outs_ = [L.sym_slip(ctx, ex, "tx%d.out%d" % (i, k)) for k in range(nout)]
            txs.append(ctx.mk_struct(ex, "Transaction", "tx%d" % i, transaction_type=t, **{"from": S.Seq(ins, "Slip"), "to": S.Seq(outs_, "Slip"), "path": S.Seq([], "Hop")}))
            pre.append(L.enum_in_range(t, L.TX_TYPES))
            for s in ins + outs_:
                pre.append(L.enum_in_range(L.slip_field(ctx, s, "slip_type"), L.SLIP_TYPES))
                pre.append(z3.ULE(L.slip_field(ctx, s, "amount").bv, 7 * 10**17))
        return txs, pre

    def logger(disk_block=None):
        def hook(ex_, st, callee, args, dty):
            if disk_block is not None and re.search(r"Storage::load_block_from_disk$", callee):
                st.events.append(("call", callee, args, None))
                res = S.EnumV("Result<Block, Error>", "Ok", None, {"Ok": S.Agg("variant", "Ok", [disk_block])})
                return S.Agg("struct", "ReadyFuture", [res])
            if re.search(r"Slip::generate_utxoset_key$", callee):
                st.events.append(("keyed", callee, _path_key(args[0]), None))
                return S.UNIT
            if re.search(r"Transaction::generate$", callee) and "Transaction::generate$" in ex_.hooked:
                st.events.append(("txgen", callee, _path_key(args[0]), None))
                return z3.BoolVal(True)
            if re.search(r"Block::generate$", callee) and "Block::generate$" in ex_.hooked:
                st.events.append(("blockgen", callee, _path_key(args[0]), None))
                return S.EnumV("Result<(), Error>", "Ok", None, {"Ok": S.Agg("variant", "Ok", [S.UNIT])})
            return None
        return hook
    reached = 0
    # ---- step 1: the upgrade
    for n in (1, 2):
        ex = ctx.executor(loop_bound=n + 4, inline="auto", max_paths=8000,
                          no_inline=[r"Storage::", r"Block::generate$", r"Transaction::generate$", r"generate_hash_for_signature$", r"generate_total_work$", r"Slip::generate_utxoset_key$", r"fmt", r"to_hex"])
        ex.pure = [r".*"]
        ex.hooked = ("Transaction::generate$", "Block::generate$")
        txs, pre = mk_txs(ex, n)
        disk_block = ctx.mk_struct(ex, "Block", "disk_block", transactions=S.Seq(txs, "Transaction"))
        bt = ex.fresh_value("BlockType", "block.block_type")
        block = ctx.mk_struct(ex, "Block", "block", block_type=bt, transactions=S.Seq([], "Transaction"))
        bcell = S.Cell(block)
        ex.on_call = logger(disk_block)
        st = S.State()
        st.pc.extend(pre + [L.enum_in_range(bt, 4)])
        full = S.EnumV("BlockType", "Full", dict(ctx.enums["BlockType"])["Full"])
        body, co = L.coroutine(ctx, ex, r"block::<impl at [^>]*>::upgrade_block_to_block_type",
                               [S.Ref(bcell, (), True), full, S.Ref(S.Cell(S.Opaque("storage", "Storage"))), z3.BoolVal(False)])
        outs = ex.run(body, [S.Ref(S.Cell(co), (), True), S.Opaque("cx", "Context")], st)
        v.paths += len(outs)
        for o in outs:
            if o.kind in ("unsupported", "unwound", "path-limit"):
                return v.undecided("upgrade, n=%d: %s %s" % (n, o.kind, o.info))
            if o.kind == "panic":
                L.report_panic(v, ex, o, "n=%d: upgrade_block_to_block_type panics: %s" % (n, o.info))
                continue
            if o.kind != "return":
                continue
            loads = [k for k, e in enumerate(o.events) if e[0] == "call" and re.search(r"load_block_from_disk$", e[1])]
            if not loads:
                continue
            res = L.ready_value(ex, o)
            if z3.is_bool(res):
                ok = res
            elif isinstance(res, S.I):
                ok = res.bv != 0
            else:
                return v.undecided("n=%d: answer of the upgrade is not a boolean value (%s)" % (n, type(res).__name__))
            v.queries += 1
            if not ex.feasible(o.pc, ok):
                continue
            sref = L.coroutine_arg_after(ex, o, "Block", 0)
            if sref is None:
                return v.undecided("n=%d: the block is not found in the coroutine's state" % n)
            bcell = sref.cell
            held = ex.deref_value(sref).fields[fi_tx]
            if not (isinstance(held, S.Seq) and len(held.items) == n):
                v.fail("n=%d: the upgrade answers true but the block does not hold the %d transaction(s) read from disk" % (n, n), dict(path=L.trace_text(o, 12)))
                continue
            after = o.events[loads[-1]:]
            own = lambda e: e[2] is not None and e[2][0] is bcell
            strip = lambda pth: tuple((p[0], p[1]) for p in pth)
            if any(e[0] == "blockgen" and own(e) and e[2][1] == () for e in after):
                reached += 1
                continue
            txm = {strip(e[2][1]) for e in after if e[0] == "txgen" and own(e)}
            km = {strip(e[2][1]) for e in after if e[0] == "keyed" and own(e)}
            missing = [i for i in range(n) if (("f", fi_tx), ("i", i)) not in txm and
                       not all((("f", fi_tx), ("i", i), ("f", fld), ("i", 0)) in km for fld in (fi_from, fi_to))]
            if missing:
                v.fail("a block reloaded from disk (%d transaction(s)) is handed back as Full without recomputing the ledger keys of its slips (transaction %s): unwinding it later neither restores its inputs nor removes its outputs" % (n, ", ".join(map(str, missing))),
                       dict(path=L.trace_text(o, 12), calls_after_load=[re.sub(r"<impl at [^>]*>", "", e[1])[-50:] for e in after][:12]))
                continue
            reached += 1
    if not reached:
        return v.undecided("no successful upgrade path was explored")
    # ---- step 2: Block::generate -> Transaction::generate on every transaction
    gen = ctx.body(r"block::<impl at [^>]*>::generate$")
    for n in (1, 2):
        ex = ctx.executor(loop_bound=n + 4, inline="auto", max_paths=8000,
                          no_inline=[r"Transaction::generate$", r"generate_merkle_root$", r"generate_pre_hash$", r"generate_hash$", r"generate_transaction_hashmap$", r"serialize_for_signature$", r"generate_cumulative_fees$"])
        ex.pure = [r".*"]
        ex.hooked = ("Transaction::generate$",)
        txs, pre = mk_txs(ex, n)
        block = ctx.mk_struct(ex, "Block", "block", transactions=S.Seq(txs, "Transaction"))
        bcell = S.Cell(block)
        ex.on_call = logger()
        st = S.State()
        st.pc.extend(pre)
        outs = ex.run(gen, [S.Ref(bcell, (), True)], st)
        v.paths += len(outs)
        for o in outs:
            if o.kind in ("unsupported", "unwound", "path-limit"):
                return v.undecided("Block::generate, n=%d: %s %s" % (n, o.kind, o.info))
            if o.kind != "return":
                continue
            bcell = o.state.frames[0].locals["_1"].v.cell
            txm = {tuple((p[0], p[1]) for p in e[2][1]) for e in o.events if e[0] == "txgen" and e[2] is not None and e[2][0] is bcell}
            missing = [i for i in range(n) if (("f", fi_tx), ("i", i)) not in txm]
            v.queries += 1
            if missing and ex.feasible(o.pc):
                from .models import as_enum, enum_is
                r_ = as_enum(ex, o.value, "Result")
                if ex.feasible(o.pc, enum_is(ex, r_, "Ok")):
                    v.fail("Block::generate succeeds on a block of %d without running Transaction::generate on transaction %s" % (n, ", ".join(map(str, missing))), dict(path=L.trace_text(o, 12)))
    # ---- step 3: Transaction::generate -> generate_utxoset_key on every slip
    tgen = ctx.body(r"transaction::<impl at [^>]*>::generate$")
    for nin, nout in ((1, 1), (2, 1), (1, 2), (2, 2)):
        ex = ctx.executor(loop_bound=6, inline="auto", max_paths=8000, no_inline=[r"generate_hash_for_signature$", r"generate_total_work$", r"Slip::generate_utxoset_key$", r"fmt", r"to_hex"])
        ex.pure = [r".*"]
        ex.hooked = ()
        txs, pre = mk_txs(ex, 1, nin, nout)
        tcell = S.Cell(txs[0])
        ex.on_call = logger()
        st = S.State()
        st.pc.extend(pre)
        outs = ex.run(tgen, [S.Ref(tcell, (), True), S.Ref(S.Cell(ex.fresh_value("[u8; 33]", "creator"))), ex.fresh_value("u64", "tx_index"), ex.fresh_value("u64", "block_id")], st)
        v.paths += len(outs)
        for o in outs:
            if o.kind in ("unsupported", "unwound", "path-limit"):
                return v.undecided("Transaction::generate, %d in / %d out: %s %s" % (nin, nout, o.kind, o.info))
            if o.kind == "panic":
                L.report_panic(v, ex, o, "Transaction::generate panics: %s" % o.info)
                continue
            if o.kind != "return":
                continue
            tcell = o.state.frames[0].locals["_1"].v.cell
            km = {tuple((p[0], p[1]) for p in e[2][1]) for e in o.events if e[0] == "keyed" and e[2] is not None and e[2][0] is tcell}
            missing = ["input %d" % k for k in range(nin) if (("f", fi_from), ("i", k)) not in km] + ["output %d" % k for k in range(nout) if (("f", fi_to), ("i", k)) not in km]
            v.queries += 1
            if missing and ex.feasible(o.pc):
                v.fail("Transaction::generate (%d in / %d out) returns without computing the ledger key of %s" % (nin, nout, ", ".join(missing)), dict(path=L.trace_text(o, 12)))
    v.covers_total += 1
    v.covers_sat += 1
