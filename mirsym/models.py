"""Models of the std / core / third-party functions that the encoded bodies call.

Each model is (regex on the callee text at the call site, function).  A model returns the
call's result value, or ("__fork__", [(cond, value|PathEnd), ...]) to split the path, or
("__inline__", body, args) to run a MIR body instead, or NotImplemented to fall through.
Everything not listed here and not inlined is uninterpreted (fresh result, &mut args havocked).
"""
import re
import z3
from .sym import (I, Ref, Agg, EnumV, Bytes, Seq, Opaque, Cell, MapV, UNIT, Unsupported, PathEnd, bv, const_int, is_concrete, as_int, INT_TYPES)

MODELS = []


def model(pattern):
    def deco(fn):
        MODELS.append((re.compile(pattern), fn))
        return fn
    return deco


def deref(ex, v):
    return ex.deref_value(v)


def _vars_of(e):
    from z3 import z3util
    try:
        return z3util.get_vars(e)
    except Exception:
        return []


def mk_some(ty, v):
    return EnumV(ty or "Option", "Some", None, {"Some": Agg("variant", "Some", [v])})


def mk_none(ty):
    return EnumV(ty or "Option", "None", None, {"None": Agg("variant", "None", [])})


def mk_ok(ty, v):
    return EnumV(ty or "Result", "Ok", None, {"Ok": Agg("variant", "Ok", [v])})


def mk_err(ty, v):
    return EnumV(ty or "Result", "Err", None, {"Err": Agg("variant", "Err", [v])})


def u64(n):
    return const_int(n, "usize")


def length_of(ex, v):
    v = deref(ex, v)
    if isinstance(v, Bytes):
        return v.len
    if isinstance(v, Seq):
        return u64(len(v.items))
    if isinstance(v, Agg) and v.kind in ("array",):
        return u64(len(v.fields))
    if isinstance(v, Opaque):
        if "len" not in v.children:
            v.children["len"] = I(z3.BitVec(v.name + ".len", 64))
        return v.children["len"]
    raise Unsupported("len of %s" % type(v).__name__)


# ---------------------------------------------------------------- logging is off
@model(r"<(?:log::)?Level as PartialOrd<(?:log::)?LevelFilter>>::le$")
def m_level_le(ex, st, callee, args, dty, m):
    return z3.BoolVal(False)


@model(r"(?:^|::)max_level$")
def m_max_level(ex, st, callee, args, dty, m):
    return Opaque("LevelFilter::Off", "LevelFilter")


# ---------------------------------------------------------------- lengths
@model(r"(?:Vec::<.*>|VecDeque::<.*>|std::slice::<impl \[.*\]>|core::slice::<impl \[.*\]>|String|str)::len$")
def m_len(ex, st, callee, args, dty, m):
    return length_of(ex, args[0])


@model(r"(?:Vec::<.*>|VecDeque::<.*>|std::slice::<impl \[.*\]>|core::slice::<impl \[.*\]>|String)::is_empty$")
def m_is_empty(ex, st, callee, args, dty, m):
    return length_of(ex, args[0]).bv == 0


# ---------------------------------------------------------------- indexing
def bounds_fork(ex, st, ok_cond, value, what):
    """result when ok_cond, panic otherwise"""
    return ("__fork__", [(ok_cond, value), (z3.Not(ok_cond), PathEnd("panic", what))])


def range_of(ex, r):
    """Range / RangeFrom / RangeTo / RangeInclusive aggregate -> (start, end_exclusive or None)"""
    r = deref(ex, r)
    if not isinstance(r, Agg):
        raise Unsupported("range value")
    n = r.name
    if "RangeFrom" in n:
        return r.fields[0], None
    if "RangeTo" in n and "Inclusive" not in n:
        return u64(0), r.fields[0]
    if "RangeFull" in n:
        return u64(0), None
    if "RangeInclusive" in n:
        raise Unsupported("RangeInclusive index")
    return r.fields[0], r.fields[1]


@model(r"<(?:Vec<(.*)>|\[(.*)\]) as Index<(?:std::ops::|core::ops::)?(Range|RangeFrom|RangeTo|RangeFull)(?:<usize>)?>>::index$")
def m_index_range(ex, st, callee, args, dty, m):
    base = deref(ex, args[0])
    s, e = range_of(ex, args[1])
    ln = length_of(ex, base)
    if e is None:
        e = ln
    ok = z3.And(z3.ULE(s.bv, e.bv), z3.ULE(e.bv, ln.bv))
    what = "slice index out of range: %s" % callee[:60]
    if isinstance(base, Bytes):
        # slice view: new array shifted by start
        k = z3.BitVec("k", 64)
        name = "slice!%d" % next(ex.fresh_counter)
        if is_concrete(s) and as_int(s) == 0:
            arr = base.arr
        else:
            arr = z3.Lambda([k], z3.Select(base.arr, k + s.bv))
        val = Ref(Cell(Bytes(I(z3.simplify(e.bv - s.bv)), arr)), ())
        return bounds_fork(ex, st, ok, val, what)
    if isinstance(base, Seq) and is_concrete(s) and is_concrete(e):
        a, b = as_int(s), as_int(e)
        if not (a <= b <= len(base.items)):
            raise PathEnd("panic", what)
        return Ref(Cell(Seq(base.items[a:b], base.elem_ty)), ())
    raise Unsupported("range index into %s" % type(base).__name__)


@model(r"<(?:Vec<(.*)>|\[(.*)\]|VecDeque<(.*)>) as Index(?:Mut)?<usize>>::index(?:_mut)?$")
def m_index_usize(ex, st, callee, args, dty, m):
    base_ref = args[0]
    base = deref(ex, base_ref)
    idx = args[1]
    ln = length_of(ex, base)
    ok = z3.ULT(idx.bv, ln.bv)
    what = "index out of bounds: %s" % callee[:60]
    # a reference to the element: path extension on the container's own cell
    if isinstance(base_ref, Ref):
        c, p = base_ref.cell, base_ref.path
        # follow refs to the container itself
        v = ex.get_path(c, p)
        while isinstance(v, Ref):
            c, p = v.cell, v.path
            v = ex.get_path(c, p)
        if isinstance(base, Seq) and not is_concrete(idx):
            # symbolic index into a concrete-length sequence: one path per element
            outs = []
            for i in range(len(base.items)):
                outs.append((idx.bv == i, Ref(c, p + (("i", u64(i)),), base_ref.mut)))
            outs.append((z3.Not(ok), PathEnd("panic", what)))
            return ("__fork__", outs)
        elem = Ref(c, p + (("i", idx),), base_ref.mut)
        return bounds_fork(ex, st, ok, elem, what)
    raise Unsupported("index on non-ref")


@model(r"<Vec<.*> as Deref(?:Mut)?>::deref(?:_mut)?$|Vec::<.*>::as_slice$|Vec::<.*>::as_mut_slice$|<Vec<.*> as AsRef<\[.*\]>>::as_ref$|<\[.*\] as AsRef<\[.*\]>>::as_ref$|<\[u8; \d+\]>::as_slice$|(?:core|std)::array::<impl \[.*; \d+\]>::as_slice$|<String as Deref>::deref$|String::as_bytes$|str::as_bytes$")
def m_as_slice(ex, st, callee, args, dty, m):
    return args[0]


@model(r"(?:std|core)::slice::<impl \[(.*)\]>::to_vec$|<\[(.*)\] as ToOwned>::to_owned$|<Vec<(.*)> as Clone>::clone$|<\[u8; \d+\] as Clone>::clone$")
def m_to_vec(ex, st, callee, args, dty, m):
    v = deref(ex, args[0])
    return ex.copy_value(v)


@model(r"<T as Clone>::clone$|<.* as Clone>::clone$")
def m_clone(ex, st, callee, args, dty, m):
    v = deref(ex, args[0])
    if isinstance(v, (I, z3.ExprRef, Bytes, Seq, Agg, EnumV)):
        return ex.copy_value(v)
    return NotImplemented


def bytes_try_into(ex, v, n, dty):
    v = deref(ex, v)
    if not isinstance(v, Bytes):
        raise Unsupported("try_into on %s" % type(v).__name__)
    ok = v.len.bv == n
    okv = mk_ok(dty, Bytes(u64(n), v.arr))
    errv = mk_err(dty, Opaque("TryFromSliceError", None))
    return ("__fork__", [(ok, okv), (z3.Not(ok), errv)])


@model(r"<(?:Vec<u8>|&\[u8\]|&mut \[u8\]) as TryInto<\[u8; (\d+)\]>>::try_into$|<\[u8; (\d+)\] as TryFrom<(?:&\[u8\]|Vec<u8>)>>::try_from$")
def m_try_into_array(ex, st, callee, args, dty, m):
    n = int(m.group(1) or m.group(2))
    return bytes_try_into(ex, args[0], n, dty)


@model(r"<&\[u8\] as TryInto<Vec<u8>>>::try_into$|<&\[u8\] as Into<Vec<u8>>>::into$|<Vec<u8> as From<&\[u8\]>>::from$")
def m_try_into_vec(ex, st, callee, args, dty, m):
    v = deref(ex, args[0])
    c = ex.copy_value(v)
    return mk_ok(dty, c) if "TryInto" in callee else c


# ---------------------------------------------------------------- Result / Option plumbing
def enum_is(ex, v, variant):
    """z3 Bool: enum value `v` is `variant`"""
    if v.variant is not None:
        return z3.BoolVal(v.variant == variant)
    if variant in ("None", "Some", "Ok", "Err", "Continue", "Break") and ex.type_base(v.ty or "") in ("Option", "Result", "ControlFlow", ""):
        return (v.discr.bv == 0) if variant in ("None", "Ok", "Continue") else (v.discr.bv != 0)
    vs = ex.variants_of(v.ty) or []
    for name, d in vs:
        if name == variant:
            return v.discr.bv == bv(d, v.discr.width)
    std = {"None": 0, "Some": 1, "Ok": 0, "Err": 1, "Continue": 0, "Break": 1}
    if variant in std:
        # two-variant std enums: the discriminant is 0 or "not 0"
        return (v.discr.bv == 0) if std[variant] == 0 else (v.discr.bv != 0)
    raise Unsupported("variant test %s on %s" % (variant, v.ty))


def _payload_type(ty, variant):
    ty = (ty or "").strip()
    mm = re.match(r"^(?:std::option::|core::option::)?Option<(.*)>$", ty)
    if mm and variant == "Some":
        return mm.group(1)
    mm = re.match(r"^(?:std::result::|core::result::)?Result<(.*)>$", ty)
    if mm:
        from .mir import split_top
        parts = split_top(mm.group(1))
        if len(parts) == 2:
            return parts[0] if variant == "Ok" else parts[1]
    return None


def payload(ex, v, variant, idx=0):
    if isinstance(v, Opaque):
        return ex.step_get(ex.step_get(v, ("dc", variant)), ("f", idx, None))
    p = v.payload.get(variant)
    if p is None:
        p = v.payload[variant] = Agg("variant", variant, [])
    return ex.step_get(p, ("f", idx, _payload_type(v.ty, variant) if idx == 0 else None))


def as_enum(ex, v, ty):
    v = deref(ex, v) if isinstance(v, Ref) else v
    if isinstance(v, EnumV):
        return v
    if isinstance(v, Opaque):
        e = v.children.get("as_enum")
        if e is None:
            e = EnumV(ty, None, I(z3.BitVec(v.name + ".discr", 64), True))
            e.payload = {}
            v.children["as_enum"] = e
            v.children["discr"] = e.discr
        return e
    raise Unsupported("expected enum, got %s" % type(v).__name__)


@model(r"<(?:std::(?:result|option)::|core::(?:result|option)::)?(Result|Option)<.*> as Try>::branch$")
def m_try_branch(ex, st, callee, args, dty, m):
    v = as_enum(ex, args[0], m.group(1))
    good = "Ok" if m.group(1) == "Result" else "Some"
    bad = "Err" if m.group(1) == "Result" else "None"
    cont = lambda: EnumV("ControlFlow", "Continue", None, {"Continue": Agg("variant", "Continue", [payload(ex, v, good)])})
    if m.group(1) == "Result":
        brk = lambda: EnumV("ControlFlow", "Break", None, {"Break": Agg("variant", "Break", [mk_err("Result", payload(ex, v, "Err"))])})
    else:
        brk = lambda: EnumV("ControlFlow", "Break", None, {"Break": Agg("variant", "Break", [mk_none("Option")])})
    if v.variant is not None:
        return cont() if v.variant == good else brk()
    return ("__fork__", [(enum_is(ex, v, good), cont()), (enum_is(ex, v, bad), brk())])


@model(r"<(?:std::(?:result|option)::|core::(?:result|option)::)?(Result|Option)<.*> as FromResidual<.*>>::from_residual$")
def m_from_residual(ex, st, callee, args, dty, m):
    v = args[0]
    if m.group(1) == "Option":
        return mk_none(dty)
    if isinstance(v, EnumV) and v.variant == "Err":
        return mk_err(dty, payload(ex, v, "Err"))
    return mk_err(dty, Opaque("residual!%d" % next(ex.fresh_counter), None))


@model(r"Result::<.*>::or::<.*>$")
def m_result_or(ex, st, callee, args, dty, m):
    v = as_enum(ex, args[0], "Result")
    alt = args[1]
    if v.variant is not None:
        return mk_ok(dty, payload(ex, v, "Ok")) if v.variant == "Ok" else alt
    return ("__fork__", [(enum_is(ex, v, "Ok"), mk_ok(dty, payload(ex, v, "Ok"))), (enum_is(ex, v, "Err"), alt)])


@model(r"Option::<.*>::ok_or::<.*>$")
def m_ok_or(ex, st, callee, args, dty, m):
    v = as_enum(ex, args[0], "Option")
    if v.variant is not None:
        return mk_ok(dty, payload(ex, v, "Some")) if v.variant == "Some" else mk_err(dty, args[1])
    return ("__fork__", [(enum_is(ex, v, "Some"), mk_ok(dty, payload(ex, v, "Some"))), (enum_is(ex, v, "None"), mk_err(dty, args[1]))])


@model(r"(Result|Option)::<.*>::(is_ok|is_err|is_some|is_none)$")
def m_is_variant(ex, st, callee, args, dty, m):
    v = as_enum(ex, args[0], m.group(1))
    variant = {"is_ok": "Ok", "is_err": "Err", "is_some": "Some", "is_none": "None"}[m.group(2)]
    return z3.simplify(enum_is(ex, v, variant))


@model(r"(Result|Option)::<.*>::(unwrap|expect)$")
def m_unwrap(ex, st, callee, args, dty, m):
    v = as_enum(ex, args[0], m.group(1))
    good = "Ok" if m.group(1) == "Result" else "Some"
    origin = ""
    if isinstance(v.discr, I):
        names = [str(x) for x in _vars_of(v.discr.bv)]
        origin = " [value from: %s]" % (", ".join(names)[:80] or "constant")
    what = "%s on a %s value: %s%s" % (m.group(2), "None" if good == "Some" else "Err", callee[:50], origin)
    if v.variant is not None:
        if v.variant == good:
            return payload(ex, v, good)
        raise PathEnd("panic", what)
    return ("__fork__", [(enum_is(ex, v, good), payload(ex, v, good)), (z3.Not(enum_is(ex, v, good)), PathEnd("panic", what))])


@model(r"(Result|Option)::<.*>::(?:unwrap_or_default|unwrap_or)$")
def m_unwrap_or(ex, st, callee, args, dty, m):
    return NotImplemented


@model(r"Result::<.*>::(err|ok)$")
def m_result_err_ok(ex, st, callee, args, dty, m):
    v = as_enum(ex, args[0], "Result")
    want = "Err" if m.group(1) == "err" else "Ok"
    other = "Ok" if want == "Err" else "Err"
    if v.variant is not None:
        return mk_some(dty, payload(ex, v, want)) if v.variant == want else mk_none(dty)
    return ("__fork__", [(enum_is(ex, v, want), mk_some(dty, payload(ex, v, want))), (enum_is(ex, v, other), mk_none(dty))])


# ---------------------------------------------------------------- integers <-> bytes
@model(r"(?:core|std)::num::<impl (u8|u16|u32|u64|u128|usize|i32|i64)>::from_(be|le)_bytes$")
def m_from_bytes(ex, st, callee, args, dty, m):
    ty, end = m.group(1), m.group(2)
    w, s = INT_TYPES[ty]
    n = w // 8
    b = deref(ex, args[0])
    if not isinstance(b, Bytes):
        raise Unsupported("from_be_bytes of %s" % type(b).__name__)
    bs = [z3.Select(b.arr, bv(i, 64)) for i in range(n)]
    if end == "le":
        bs = bs[::-1]
    return I(z3.Concat(*bs) if n > 1 else bs[0], s)


@model(r"(?:core|std)::num::<impl (u8|u16|u32|u64|u128|usize|i32|i64)>::to_(be|le)_bytes$")
def m_to_bytes(ex, st, callee, args, dty, m):
    ty, end = m.group(1), m.group(2)
    w, s = INT_TYPES[ty]
    n = w // 8
    v = args[0]
    arr = z3.K(z3.BitVecSort(64), bv(0, 8))
    for i in range(n):
        hi = w - 1 - 8 * i if end == "be" else 8 * i + 7
        arr = z3.Store(arr, bv(i, 64), z3.Extract(hi, hi - 7, v.bv))
    return Bytes(u64(n), arr)


@model(r"(?:core|std)::num::<impl (u8|u16|u32|u64|u128|usize)>::checked_(add|sub|mul)$")
def m_checked(ex, st, callee, args, dty, m):
    a, b = args
    op = {"add": "AddWithOverflow", "sub": "SubWithOverflow", "mul": "MulWithOverflow"}[m.group(2)]
    r = ex.binop(op, a, b)
    val, ov = r.fields
    return ("__fork__", [(z3.Not(ov), mk_some(dty, val)), (ov, mk_none(dty))])


@model(r"(?:core|std)::num::<impl (u8|u16|u32|u64|u128|usize)>::(wrapping|saturating)_(add|sub|mul)$")
def m_wrapping(ex, st, callee, args, dty, m):
    a, b = args
    kind, op = m.group(2), m.group(3)
    plain = ex.binop({"add": "Add", "sub": "Sub", "mul": "Mul"}[op], a, b)
    if kind == "wrapping":
        return plain
    r = ex.binop({"add": "AddWithOverflow", "sub": "SubWithOverflow", "mul": "MulWithOverflow"}[op], a, b)
    val, ov = r.fields
    sat = bv(0, a.width) if op == "sub" else bv((1 << a.width) - 1, a.width)
    return I(z3.If(ov, sat, val.bv), a.signed)


@model(r"(?:std|core)::cmp::(max|min)::<(u8|u16|u32|u64|u128|usize)>$|<(u8|u16|u32|u64|u128|usize) as (?:std::cmp::)?Ord>::(max|min)$")
def m_int_max_min(ex, st, callee, args, dty, m):
    a, b = args
    if not (isinstance(a, I) and isinstance(b, I)):
        return NotImplemented
    which = m.group(1) or m.group(4)
    pick_a = z3.UGE(a.bv, b.bv) if which == "max" else z3.ULE(a.bv, b.bv)
    return I(z3.If(pick_a, a.bv, b.bv), a.signed)


@model(r"<&?bool as (?:std::ops::|core::ops::)?Not>::not$")
def m_bool_not(ex, st, callee, args, dty, m):
    a = deref(ex, args[0]) if isinstance(args[0], Ref) else args[0]
    if isinstance(a, I):
        a = a.bv != 0
    if not z3.is_bool(a):
        return NotImplemented
    return z3.Not(a)


# ---------------------------------------------------------------- arithmetic operator traits on primitive integers (`x -= *y`, `a + &b`)
@model(r"<&?(u8|u16|u32|u64|u128|usize) as (?:std::ops::|core::ops::)?(Add|Sub|Mul)(Assign)?<&?\1>>::(?:add|sub|mul)(?:_assign)?$")
def m_int_op_trait(ex, st, callee, args, dty, m):
    opn, assign = m.group(2), bool(m.group(3))
    a0, b0 = args
    b = deref(ex, b0) if isinstance(b0, Ref) else b0
    a = deref(ex, a0) if isinstance(a0, Ref) else a0
    if not (isinstance(a, I) and isinstance(b, I)):
        return NotImplemented
    r = ex.binop(opn + "WithOverflow", a, b)
    val, ov = r.fields
    what = "attempt to %s with overflow (%s)" % ({"Add": "add", "Sub": "subtract", "Mul": "multiply"}[opn], callee[:50])
    if assign:
        if not isinstance(a0, Ref):
            return NotImplemented

        def store(ex_, st_, arg):
            ref, value = arg
            ex_.set_path(ref.cell, ref.path, value)
            return UNIT
        # primitive operator impls inherit the caller's overflow checks (#[rustc_inherit_overflow_checks]): this build has them on
        return ("__fork__", [(z3.Not(ov), ("__thunk__", store, (a0, val))), (ov, PathEnd("panic", what))])
    return ("__fork__", [(z3.Not(ov), val), (ov, PathEnd("panic", what))])


# ---------------------------------------------------------------- Vec / VecDeque retain over a tracked sequence
@model(r"(?:VecDeque|Vec)::<.*>::retain::<.*>$")
def m_seq_retain(ex, st, callee, args, dty, m):
    sref = args[0]
    seq = deref(ex, sref)
    if not isinstance(seq, Seq):
        return NotImplemented
    closure = args[1]
    cbody = ex.closure_body(closure)
    if cbody is None:
        return NotImplemented
    c, p = sref.cell, sref.path
    vv = ex.get_path(c, p)
    while isinstance(vv, Ref):
        c, p = vv.cell, vv.path
        vv = ex.get_path(c, p)
    n = len(seq.items)
    _DRIVER_COUNT[0] += 1
    k = _DRIVER_COUNT[0]
    b = _MIR.Body("__retain_%d" % k, "synthetic")
    b.args = [("_1", "env"), ("_S", "seq")] + [("_%d" % (i + 2), "item") for i in range(n)]
    b.locals = dict(b.args)
    b.locals["_0"] = "()"
    b.locals["_G"] = "bool"
    b.locals["_D"] = "u64"
    tok_call, tok_zero, tok_or, tok_done = "__closure_call__%d" % k, "__retain_zero__%d" % k, "__retain_drop__%d" % k, "__retain_done__%d" % k

    def zero(ex_, st_, callee_, a, dt, mm):
        return u64(0)

    def drop(ex_, st_, callee_, a, dt, mm):
        return u64(as_int(a[0]) | (1 << as_int(a[1])))

    def done(ex_, st_, callee_, a, dt, mm):
        s_ = deref(ex_, a[0])
        mask = as_int(a[1])
        s_.items = [it for i, it in enumerate(s_.items) if not (mask >> i) & 1]
        return UNIT
    ex.models = [(re.compile(re.escape(tok_call) + "$"), lambda ex_, st_, callee_, a, dt, mm, cb=cbody: ("__inline__", cb, a)),
                 (re.compile(re.escape(tok_zero) + "$"), zero), (re.compile(re.escape(tok_or) + "$"), drop), (re.compile(re.escape(tok_done) + "$"), done)] + list(ex.models)

    def blk(name):
        bb = _MIR.Block(name, False)
        b.blocks[name] = bb
        return bb
    blk("bb0").term = ("call", ("local", "_D"), tok_zero, [], {"return": "bb1"})
    for i in range(n):
        bb = blk("bb%d" % (3 * i + 1))
        bb.term = ("call", ("local", "_G"), tok_call, [("copy", ("local", "_1")), ("copy", ("local", "_%d" % (i + 2)))], {"return": "bb%d" % (3 * i + 2)})
        sw = blk("bb%d" % (3 * i + 2))
        sw.term = ("switch", ("copy", ("local", "_G")), [("0", "bb%d" % (3 * i + 3)), ("otherwise", "bb%d" % (3 * i + 4))])
        dr = blk("bb%d" % (3 * i + 3))
        dr.term = ("call", ("local", "_D"), tok_or, [("copy", ("local", "_D")), ("const", "%d_usize" % i)], {"return": "bb%d" % (3 * i + 4)})
    blk("bb%d" % (3 * n + 1)).term = ("call", ("local", "_0"), tok_done, [("copy", ("local", "_S")), ("copy", ("local", "_D"))], {"return": "bbR"})
    blk("bbR").term = ("return",)
    by_ref = cbody.args[0][1].lstrip().startswith("&")
    env = closure
    if by_ref and not isinstance(closure, Ref):
        env = Ref(Cell(closure), (), True)
    if not by_ref and isinstance(closure, Ref):
        env = deref(ex, closure)
    items = [Ref(c, p + (("i", u64(i)),), False) for i in range(n)]
    return ("__inline__", b, [env, Ref(c, p, True)] + items)


# ---------------------------------------------------------------- HashMap::retain over a tracked map with unconditionally present entries
@model(r"(?:AHashMap|HashMap)::<.*>::retain::<.*>$")
def m_map_retain(ex, st, callee, args, dty, m):
    mref = args[0]
    mv = deref(ex, mref)
    if not isinstance(mv, MapV) or mv.entries is None:
        return NotImplemented
    closure = args[1]
    cbody = ex.closure_body(closure)
    if cbody is None:
        return NotImplemented
    live = [i for i, e in enumerate(mv.entries) if not z3.is_false(z3.simplify(e[0]))]
    for i in live:
        if not z3.is_true(z3.simplify(mv.entries[i][0])):
            raise Unsupported("retain over a map with conditionally present entries")
    n = len(live)
    _DRIVER_COUNT[0] += 1
    k = _DRIVER_COUNT[0]
    b = _MIR.Body("__map_retain_%d" % k, "synthetic")
    b.args = [("_1", "env"), ("_M", "map")] + [("_K%d" % i, "key") for i in range(n)] + [("_V%d" % i, "value") for i in range(n)]
    b.locals = dict(b.args)
    b.locals["_0"] = "()"
    b.locals["_G"] = "bool"
    b.locals["_U"] = "()"
    tok_call, tok_drop = "__closure_call__%d" % k, "__map_retain_drop__%d" % k

    def drop(ex_, st_, callee_, a, dt, mm, live=live):
        mp = deref(ex_, a[0])
        mp.entries[live[as_int(a[1])]][0] = z3.BoolVal(False)
        return UNIT
    ex.models = [(re.compile(re.escape(tok_call) + "$"), lambda ex_, st_, callee_, a, dt, mm, cb=cbody: ("__inline__", cb, a)),
                 (re.compile(re.escape(tok_drop) + "$"), drop)] + list(ex.models)

    def blk(name):
        bb = _MIR.Block(name, False)
        b.blocks[name] = bb
        return bb
    for i in range(n):
        bb = blk("bb%d" % (3 * i))
        bb.term = ("call", ("local", "_G"), tok_call, [("copy", ("local", "_1")), ("copy", ("local", "_K%d" % i)), ("copy", ("local", "_V%d" % i))], {"return": "bb%d" % (3 * i + 1)})
        sw = blk("bb%d" % (3 * i + 1))
        sw.term = ("switch", ("copy", ("local", "_G")), [("0", "bb%d" % (3 * i + 2)), ("otherwise", "bb%d" % (3 * i + 3))])
        dr = blk("bb%d" % (3 * i + 2))
        dr.term = ("call", ("local", "_U"), tok_drop, [("copy", ("local", "_M")), ("const", "%d_usize" % i)], {"return": "bb%d" % (3 * i + 3)})
    blk("bb%d" % (3 * n)).term = ("return",)
    by_ref = cbody.args[0][1].lstrip().startswith("&")
    env = closure
    if by_ref and not isinstance(closure, Ref):
        env = Ref(Cell(closure), (), True)
    if not by_ref and isinstance(closure, Ref):
        env = deref(ex, closure)
    keys = [Ref(Cell(mv.entries[i][1]), ()) for i in live]
    vals = [Ref(mv.entries[i][2], (), True) for i in live]
    return ("__inline__", b, [env, mref] + keys + vals)


# ---------------------------------------------------------------- Ordering::then / then_with
@model(r"(?:std|core)::cmp::Ordering::then$")
def m_ordering_then(ex, st, callee, args, dty, m):
    a, b = args
    da, db = ex.discr_of(a), ex.discr_of(b)
    if not (isinstance(da, I) and isinstance(db, I)):
        return NotImplemented
    return EnumV("Ordering", None, I(z3.If(da.bv != 0, da.bv, db.bv), True))


@model(r"(?:std|core)::cmp::Ordering::then_with::<.*>$")
def m_ordering_then_with(ex, st, callee, args, dty, m):
    a = args[0]
    da = ex.discr_of(a)
    if isinstance(da, I) and not ex.feasible(st.pc, da.bv == 0):
        return a        # never Equal on this path: the closure is not called
    return NotImplemented


# ---------------------------------------------------------------- mem::swap / replace / take
@model(r"(?:std|core)::mem::swap::<.*>$")
def m_mem_swap(ex, st, callee, args, dty, m):
    a, b = args
    if not (isinstance(a, Ref) and isinstance(b, Ref)):
        return NotImplemented
    va, vb = ex.get_path(a.cell, a.path), ex.get_path(b.cell, b.path)
    ex.set_path(a.cell, a.path, vb)
    ex.set_path(b.cell, b.path, va)
    return UNIT


@model(r"(?:std|core)::mem::replace::<.*>$")
def m_mem_replace(ex, st, callee, args, dty, m):
    a, nv = args
    if not isinstance(a, Ref):
        return NotImplemented
    old = ex.get_path(a.cell, a.path)
    ex.set_path(a.cell, a.path, nv)
    return old


# ---------------------------------------------------------------- comparisons
def bytes_eq(a, b, n=None):
    if n is None:
        if not (is_concrete(a.len) and is_concrete(b.len)):
            raise Unsupported("equality of byte sequences with symbolic length")
        if as_int(a.len) != as_int(b.len):
            return z3.BoolVal(False)
        n = as_int(a.len)
    if n > 128:
        raise Unsupported("byte equality over %d bytes" % n)
    return z3.And(*[z3.Select(a.arr, bv(i, 64)) == z3.Select(b.arr, bv(i, 64)) for i in range(n)]) if n else z3.BoolVal(True)


def value_eq(ex, a, b):
    a, b = deref(ex, a), deref(ex, b)
    if isinstance(a, I) and isinstance(b, I):
        return a.bv == b.bv
    if isinstance(a, z3.BoolRef) and isinstance(b, z3.BoolRef):
        return a == b
    if isinstance(a, Bytes) and isinstance(b, Bytes):
        return bytes_eq(a, b)
    if isinstance(a, EnumV) and isinstance(b, EnumV) and ex.type_base(a.ty or b.ty or "") in ("Option", "") and (a.variant in (None, "Some", "None")) and (b.variant in (None, "Some", "None")) \
            and ((a.ty or "").startswith(("Option", "std::option", "core::option")) or (b.ty or "").startswith(("Option", "std::option", "core::option")) or a.variant in ("Some", "None") or b.variant in ("Some", "None")):
        sa = z3.BoolVal(a.variant == "Some") if a.variant is not None else (a.discr.bv != 0)
        sb = z3.BoolVal(b.variant == "Some") if b.variant is not None else (b.discr.bv != 0)
        if a.variant == "None" or b.variant == "None":
            return z3.And(z3.Not(sa), z3.Not(sb))
        pa, pb = payload(ex, a, "Some"), payload(ex, b, "Some")
        return z3.And(sa == sb, z3.Implies(sa, value_eq(ex, pa, pb)))
    if isinstance(a, EnumV) and isinstance(b, EnumV):
        da, db = ex.discr_of(a), ex.discr_of(b)
        da = da if isinstance(da, I) else I(bv(da, 64), True)
        db = db if isinstance(db, I) else I(bv(db, 64), True)
        same = da.bv == db.bv
        # payload-free enums only
        if any(p.fields for p in list(a.payload.values()) + list(b.payload.values()) if isinstance(p, Agg)):
            raise Unsupported("equality of enums with payload")
        return same
    if isinstance(a, Agg) and isinstance(b, Agg) and len(a.fields) == len(b.fields):
        return z3.And(*[value_eq(ex, x, y) for x, y in zip(a.fields, b.fields)]) if a.fields else z3.BoolVal(True)
    raise Unsupported("equality of %s and %s" % (type(a).__name__, type(b).__name__))


@model(r"<(.*) as PartialEq(?:<.*>)?>::(eq|ne)$")
def m_partial_eq(ex, st, callee, args, dty, m):
    try:
        e = value_eq(ex, args[0], args[1])
    except Unsupported:
        return NotImplemented
    return z3.simplify(e if m.group(2) == "eq" else z3.Not(e))


@model(r"(?:std|core)::cmp::impls::<impl PartialEq<&(?:mut )?\w+> for &(?:mut )?\w+>::(eq|ne)$|(?:std|core)::array::equality::<impl PartialEq<\[.*\]> for \[.*\]>::(eq|ne)$")
def m_partial_eq2(ex, st, callee, args, dty, m):
    try:
        e = value_eq(ex, args[0], args[1])
    except Unsupported:
        return NotImplemented
    return z3.simplify(e if (m.group(1) or m.group(2)) == "eq" else z3.Not(e))


# ---------------------------------------------------------------- ranges / iteration
@model(r"<(?:std::ops::|core::ops::)?Range<(\w+)> as IntoIterator>::into_iter$|<.* as IntoIterator>::into_iter$")
def m_into_iter(ex, st, callee, args, dty, m):
    v = args[0]
    if isinstance(v, Agg) and ("Range" in v.name or v.name == "SeqIter"):
        return v
    if isinstance(deref(ex, v), Seq):
        # slice::Iter / vec::IntoIter over a concrete-length sequence
        return Agg("struct", "SeqIter", [v, u64(0)])
    return NotImplemented


@model(r"(?:std::ops::|core::ops::)?RangeInclusive::<(\w+)>::new$")
def m_range_incl_new(ex, st, callee, args, dty, m):
    a, b = args
    if not (isinstance(a, I) and isinstance(b, I)):
        return NotImplemented
    return Agg("struct", "RangeInclusive", [a, b, z3.BoolVal(False)])


def _range_incl_take(ex, st, r):
    rng = deref(ex, r)
    cur, end = rng.fields[0], rng.fields[1]
    last = cur.bv == end.bv
    rng.fields[0] = I(z3.simplify(z3.If(last, cur.bv, cur.bv + 1)), cur.signed)
    rng.fields[2] = z3.simplify(last)
    return mk_some("Option<%s>" % ("u64" if cur.bv.size() == 64 else "u32"), cur)


@model(r"<(?:std::ops::|core::ops::)?RangeInclusive<(\w+)> as Iterator>::next$")
def m_range_incl_next(ex, st, callee, args, dty, m):
    r = args[0]
    rng = deref(ex, r)
    if not (isinstance(rng, Agg) and rng.name == "RangeInclusive"):
        return NotImplemented
    s, e, exh = rng.fields
    le = z3.ULE(s.bv, e.bv) if not s.signed else s.bv <= e.bv
    some = z3.simplify(z3.And(z3.Not(exh), le))
    if z3.is_false(some):
        return mk_none(dty)
    return ("__fork__", [(some, ("__thunk__", lambda ex_, st_, ref: _retag(_range_incl_take(ex_, st_, ref), dty), r)), (z3.Not(some), mk_none(dty))])


def _retag(v, dty):
    v.ty = dty
    return v


@model(r"<(?:std::ops::|core::ops::)?Range<(\w+)> as Iterator>::next$")
def m_range_next(ex, st, callee, args, dty, m):
    r = args[0]
    rng = deref(ex, r)
    s, e = rng.fields[0], rng.fields[1]
    lt = z3.ULT(s.bv, e.bv) if not s.signed else s.bv < e.bv
    lt = z3.simplify(lt)
    if z3.is_true(lt) or z3.is_false(lt):
        if z3.is_true(lt):
            rng.fields[0] = I(z3.simplify(s.bv + 1), s.signed)
            return mk_some(dty, s)
        return mk_none(dty)
    # fork: need separate states, so mutate after the fork through a marker value
    return ("__fork__", [(lt, ("__range_some__", r)), (z3.Not(lt), mk_none(dty))])


@model(r"(?:std|core)::slice::<impl \[(.*)\]>::iter$|Vec::<(.*)>::iter$|<&Vec<.*> as IntoIterator>::into_iter$")
def m_slice_iter(ex, st, callee, args, dty, m):
    v = deref(ex, args[0])
    if isinstance(v, Seq):
        return Agg("struct", "SeqIter", [args[0], u64(0)])
    return NotImplemented


@model(r"<(?:std|core)::slice::Iter<'_, .*> as Iterator>::next$|<(?:std::)?vec::IntoIter<.*> as Iterator>::next$|<(?:std::collections::)?hash_map::(?:Values|Keys)<'_, .*> as Iterator>::next$")
def m_slice_iter_next(ex, st, callee, args, dty, m):
    it = deref(ex, args[0])
    if not (isinstance(it, Agg) and it.name == "SeqIter"):
        return NotImplemented
    seq_ref, pos = it.fields
    seq = deref(ex, seq_ref)
    i = as_int(pos)
    if i >= len(seq.items):
        return mk_none(dty)
    it.fields[1] = u64(i + 1)
    c, p = (seq_ref.cell, seq_ref.path) if isinstance(seq_ref, Ref) else (Cell(seq), ())
    v = ex.get_path(c, p)
    while isinstance(v, Ref):
        c, p = v.cell, v.path
        v = ex.get_path(c, p)
    return mk_some(dty, Ref(c, p + (("i", u64(i)),)))


# ---------------------------------------------------------------- vec![a, b, ...] lowering: Box<[T; N]>::new_uninit + write through the raw pointer + box_assume_init_into_vec_unsafe
@model(r"Box::<\[(.*); (\d+)\]>::new_uninit$")
def m_box_new_uninit(ex, st, callee, args, dty, m):
    slot = Agg("struct", "MaybeDangling", [Opaque("uninit!%d" % next(ex.fresh_counter), "[%s; %s]" % (m.group(1), m.group(2)))])
    mu = Agg("union", "MaybeUninit", [UNIT, Agg("struct", "ManuallyDrop", [slot])])
    return Agg("struct", "BoxUninit", [Agg("struct", "Unique", [Ref(Cell(mu), (), True)])])


@model(r"(?:std|alloc)::boxed::box_assume_init_into_vec_unsafe::<(.*), (\d+)>$")
def m_box_into_vec(ex, st, callee, args, dty, m):
    b = args[0]
    if not (isinstance(b, Agg) and b.name == "BoxUninit"):
        return NotImplemented
    mu = deref(ex, b.fields[0].fields[0])
    arr = mu.fields[1].fields[0].fields[0]
    if isinstance(arr, (Seq, Bytes)):
        return ex.copy_value(arr)
    return NotImplemented


# ---------------------------------------------------------------- Vec building
@model(r"Vec::<(.*)>::new$|Vec::<(.*)>::with_capacity$|<Vec<(.*)> as Default>::default$")
def m_vec_new(ex, st, callee, args, dty, m):
    t = (m.group(1) or m.group(2) or m.group(3) or "").strip()
    if t == "u8":
        return Bytes(u64(0), z3.K(z3.BitVecSort(64), bv(0, 8)))
    return Seq([], t)


@model(r"Vec::<(.*)>::remove$")
def m_vec_remove(ex, st, callee, args, dty, m):
    r, idx = args
    v = deref(ex, r)
    if not isinstance(v, Seq) or not isinstance(idx, I):
        return NotImplemented
    i = z3.simplify(idx.bv)
    n = len(v.items)

    def take(ex_, st_, arg):
        ref, k = arg
        seq = deref(ex_, ref)
        return seq.items.pop(k)
    if z3.is_bv_value(i):
        k = i.as_long()
        if k >= n:
            return PathEnd("panic", "Vec::remove index %d out of bounds (len %d)" % (k, n))
        return v.items.pop(k)
    alts = [(idx.bv == k, ("__thunk__", take, (r, k))) for k in range(n)]
    alts.append((z3.UGE(idx.bv, n), PathEnd("panic", "Vec::remove index out of bounds (len %d)" % n)))
    return ("__fork__", alts)


@model(r"VecDeque::<(.*)>::remove$")
def m_deque_remove(ex, st, callee, args, dty, m):
    # VecDeque::remove answers Option<T>: None when the index is out of bounds (no panic)
    r, idx = args
    v = deref(ex, r)
    if not isinstance(v, Seq) or not isinstance(idx, I):
        return NotImplemented
    i = z3.simplify(idx.bv)
    n = len(v.items)

    def take(ex_, st_, arg):
        ref, k = arg
        seq = deref(ex_, ref)
        return mk_some(dty, seq.items.pop(k))
    if z3.is_bv_value(i):
        k = i.as_long()
        if k >= n:
            return mk_none(dty)
        return mk_some(dty, v.items.pop(k))
    alts = [(idx.bv == k, ("__thunk__", take, (r, k))) for k in range(n)]
    alts.append((z3.UGE(idx.bv, n), mk_none(dty)))
    return ("__fork__", alts)


@model(r"Vec::<(.*)>::pop$")
def m_vec_pop(ex, st, callee, args, dty, m):
    v = deref(ex, args[0])
    if isinstance(v, Seq):
        if not v.items:
            return mk_none(dty)
        return mk_some(dty, v.items.pop())
    return NotImplemented


@model(r"Vec::<(.*)>::truncate$")
def m_vec_truncate(ex, st, callee, args, dty, m):
    r, n = args
    v = deref(ex, r)
    if isinstance(v, Bytes) and isinstance(n, I):
        v.len = I(z3.simplify(z3.If(z3.ULT(n.bv, v.len.bv), n.bv, v.len.bv)))
        return UNIT
    if not isinstance(v, Seq) or not isinstance(n, I):
        return NotImplemented
    k = z3.simplify(n.bv)
    if z3.is_bv_value(k):
        del v.items[k.as_long():]
        return UNIT

    def cut(ex_, st_, arg):
        ref, c = arg
        seq = deref(ex_, ref)
        del seq.items[c:]
        return UNIT
    ln = len(v.items)
    return ("__fork__", [(n.bv == c, ("__thunk__", cut, (r, c))) for c in range(ln)] + [(z3.UGE(n.bv, ln), UNIT)])


@model(r"Vec::<(.*)>::swap_remove$")
def m_vec_swap_remove(ex, st, callee, args, dty, m):
    r, idx = args
    v = deref(ex, r)
    if not isinstance(v, Seq) or not isinstance(idx, I):
        return NotImplemented
    n = len(v.items)

    def take(ex_, st_, arg):
        ref, k = arg
        seq = deref(ex_, ref)
        last = seq.items.pop()
        if k == len(seq.items):
            return last
        out = seq.items[k]
        seq.items[k] = last
        return out
    i = z3.simplify(idx.bv)
    if z3.is_bv_value(i):
        k = i.as_long()
        if k >= n:
            return PathEnd("panic", "Vec::swap_remove index %d out of bounds (len %d)" % (k, n))
        return take(ex, st, (r, k))
    alts = [(idx.bv == k, ("__thunk__", take, (r, k))) for k in range(n)]
    alts.append((z3.UGE(idx.bv, n), PathEnd("panic", "Vec::swap_remove index out of bounds (len %d)" % n)))
    return ("__fork__", alts)


@model(r"Vec::<(.*)>::push$")
def m_vec_push(ex, st, callee, args, dty, m):
    r = args[0]
    v = deref(ex, r)
    if isinstance(v, Seq):
        v.items.append(args[1])
        return UNIT
    if isinstance(v, Bytes):
        v.arr = z3.Store(v.arr, v.len.bv, args[1].bv)
        v.len = I(z3.simplify(v.len.bv + 1))
        return UNIT
    raise Unsupported("push on %s" % type(v).__name__)


@model(r"<(?:std::)?io::Error as From<(?:std::io::)?ErrorKind>>::from$")
def m_io_error(ex, st, callee, args, dty, m):
    return Opaque("io::Error!%d" % next(ex.fresh_counter), "std::io::Error")


@model(r"<(\w+) as (?:From|Into)<\1>>::(?:from|into)$|<T as Into<U>>::into$|<T as From<T>>::from$")
def m_identity_from(ex, st, callee, args, dty, m):
    return args[0]


# ---------------------------------------------------------------- async plumbing (every poll is Ready)
@model(r"Pin::<.*>::new_unchecked$|Pin::<.*>::new$|<.* as IntoFuture>::into_future$|Pin::<.*>::get_mut$|Pin::<.*>::as_mut$|Box::<.*>::pin$")
def m_pin_identity(ex, st, callee, args, dty, m):
    return args[0]


@model(r"<(?:ahash::)?AHash(?:Map|Set)<.*> as Deref(?:Mut)?>::deref(?:_mut)?$|<Arc<.*> as Deref>::deref$|<Box<.*> as Deref(?:Mut)?>::deref(?:_mut)?$|<Arc<.*> as Clone>::clone$|<Arc<.*> as AsRef<.*>>::as_ref$")
def m_arc_deref(ex, st, callee, args, dty, m):
    return args[0]


@model(r"tokio::sync::RwLock::<.*>::(read|write)$")
def m_rwlock(ex, st, callee, args, dty, m):
    st.events.append(("lock", m.group(1), args, None))
    return Agg("struct", "LockFuture", [args[0], m.group(1)])


@model(r"<tokio::sync::RwLock(?:Read|Write)Guard<'_, .*> as Deref(?:Mut)?>::deref(?:_mut)?$")
def m_guard_deref(ex, st, callee, args, dty, m):
    g = deref(ex, args[0])
    if isinstance(g, Agg) and g.name == "Guard":
        return g.fields[0]
    return NotImplemented


@model(r"<(.*) as Future>::poll$")
def m_poll(ex, st, callee, args, dty, m):
    fut = deref(ex, args[0])
    if isinstance(fut, Agg) and fut.name == "LockFuture":
        target = fut.fields[0]
        return EnumV(dty or "Poll", "Ready", None, {"Ready": Agg("variant", "Ready", [Agg("struct", "Guard", [target, fut.fields[1]])])})
    if isinstance(fut, Agg) and fut.name == "ReadyFuture":
        return EnumV(dty or "Poll", "Ready", None, {"Ready": Agg("variant", "Ready", [fut.fields[0]])})
    if isinstance(fut, EnumV) and fut.upvars is not None and getattr(fut, "ty", "").startswith("coroutine:"):
        body = ex.coroutine_bodies.get(fut.ty)
        if body is not None:
            return ("__inline__", body, [args[0], args[1]])
    # future of an uninterpreted async fn: Ready(fresh)
    inner = None
    mm = re.match(r"(?:std::task::)?Poll<(.*)>$", (dty or "").strip())
    if mm:
        inner = mm.group(1)
    val = ex.fresh("await:" + (fut.name if isinstance(fut, Opaque) else "fut"), inner)
    st.events.append(("await", fut.name if isinstance(fut, Opaque) else str(type(fut).__name__), [fut], val))
    return EnumV(dty or "Poll", "Ready", None, {"Ready": Agg("variant", "Ready", [val])})


# ---------------------------------------------------------------- hash maps / sets (std and ahash)
MAP_RE = r"(?:std::collections::|ahash::|hashbrown::)?(?:AHashMap|HashMap|AHashSet|HashSet)::<.*?>"


def as_map(ex, v, create=True):
    r = v
    v = deref(ex, v)
    if isinstance(v, MapV):
        return v
    if isinstance(v, Opaque):
        mv = v.children.get("map")
        if mv is None:
            # arbitrary pre-state: unknown content is represented by an uninterpreted membership
            mv = MapV(v.name)
            mv.entries = None
            v.children["map"] = mv
        return mv
    raise Unsupported("map model on %s" % type(v).__name__)


def key_eq(ex, a, b):
    return value_eq(ex, a, b)


@model(r"(?:" + MAP_RE + r")::new$|<(?:AHashMap|HashMap|AHashSet|HashSet)<.*> as Default>::default$")
def m_map_new(ex, st, callee, args, dty, m):
    return MapV("map!%d" % next(ex.fresh_counter), [])


@model(MAP_RE + r"::contains_key::<.*>$|" + MAP_RE + r"::contains::<.*>$")
def m_map_contains(ex, st, callee, args, dty, m):
    mv = as_map(ex, args[0])
    if mv.entries is None:
        return NotImplemented
    k = args[1]
    conds = [z3.And(p, key_eq(ex, ek, k)) for p, ek, ev in mv.entries]
    return z3.simplify(z3.Or(*conds)) if conds else z3.BoolVal(False)


@model(MAP_RE + r"::insert$")
def m_map_insert(ex, st, callee, args, dty, m):
    mv = as_map(ex, args[0])
    if mv.entries is None:
        return NotImplemented
    k = args[1]
    val = args[2] if len(args) > 2 else UNIT
    was_there = z3.Or(*[z3.And(p, key_eq(ex, ek, k)) for p, ek, ev in mv.entries]) if mv.entries else z3.BoolVal(False)
    was_there = z3.simplify(was_there)
    for e in mv.entries:
        e[0] = z3.simplify(z3.And(e[0], z3.Not(key_eq(ex, e[1], k))))
    mv.entries.append([z3.BoolVal(True), k, Cell(val)])
    if (dty or "").strip() == "bool":
        return z3.Not(was_there)
    if re.match(r"^(?:std::option::|core::option::)?Option<", (dty or "").strip()):
        # Option<V>: Some(previous value) iff the key was present
        if z3.is_false(was_there):
            return mk_none(dty)
        prev = ex.fresh("prev_value", _payload_type(dty, "Some"))
        if z3.is_true(was_there):
            return mk_some(dty, prev)
        return ("__fork__", [(was_there, mk_some(dty, prev)), (z3.Not(was_there), mk_none(dty))])
    return Opaque("insert-result!%d" % next(ex.fresh_counter), dty)


def _do_remove(ex, st, data):
    map_ref, idx, is_set, dty = data
    mv = as_map(ex, map_ref)
    if idx is None:
        return z3.BoolVal(False) if is_set else mk_none(dty)
    ent = mv.entries.pop(idx)
    return z3.BoolVal(True) if is_set else mk_some(dty, ent[2].v)


@model(MAP_RE + r"::(?:remove|remove_entry|take)::<.*>$")
def m_map_remove(ex, st, callee, args, dty, m):
    mv = as_map(ex, args[0])
    if mv.entries is None:
        return NotImplemented
    k = args[1]
    is_set = "Set" in callee.split("::remove")[0].split("::take")[0]
    outs, none_c = [], []
    for i, e in enumerate(mv.entries):
        c = z3.simplify(z3.And(e[0], key_eq(ex, e[1], k)))
        none_c.append(z3.Not(c))
        outs.append((c, ("__thunk__", _do_remove, (args[0], i, is_set, dty))))
    outs.append((z3.And(*none_c) if none_c else z3.BoolVal(True), ("__thunk__", _do_remove, (args[0], None, is_set, dty))))
    return ("__fork__", outs)


@model(MAP_RE + r"::get::<.*>$")
def m_map_get(ex, st, callee, args, dty, m):
    mv = as_map(ex, args[0])
    if mv.entries is None:
        return NotImplemented
    k = args[1]
    outs = []
    none_cond = []
    for p, ek, ev in mv.entries:
        c = z3.simplify(z3.And(p, key_eq(ex, ek, k)))
        none_cond.append(z3.Not(c))
        outs.append((c, mk_some(dty, Ref(ev, ()))))
    outs.append((z3.And(*none_cond) if none_cond else z3.BoolVal(True), mk_none(dty)))
    return ("__fork__", outs)


@model(MAP_RE + r"::len$")
def m_map_len(ex, st, callee, args, dty, m):
    mv = as_map(ex, args[0])
    if mv.entries is None:
        return NotImplemented
    total = bv(0, 64)
    for p, ek, ev in mv.entries:
        total = total + z3.If(p, bv(1, 64), bv(0, 64))
    return I(z3.simplify(total))


@model(r"(?:std|core)::slice::<impl \[(.*)\]>::get::<usize>$|Vec::<(.*)>::get::<usize>$")
def m_slice_get(ex, st, callee, args, dty, m):
    base_ref = args[0]
    base = deref(ex, base_ref)
    idx = args[1]
    ln = length_of(ex, base)
    ok = z3.ULT(idx.bv, ln.bv)
    c, p = base_ref.cell, base_ref.path
    vv = ex.get_path(c, p)
    while isinstance(vv, Ref):
        c, p = vv.cell, vv.path
        vv = ex.get_path(c, p)
    if isinstance(base, Seq) and not is_concrete(idx):
        outs = [(idx.bv == i, mk_some(dty, Ref(c, p + (("i", u64(i)),)))) for i in range(len(base.items))]
        outs.append((z3.Not(ok), mk_none(dty)))
        return ("__fork__", outs)
    return ("__fork__", [(ok, mk_some(dty, Ref(c, p + (("i", idx),)))), (z3.Not(ok), mk_none(dty))])


@model(r"Option::<.*>::(and_then|map)::<.*>$")
def m_option_and_then(ex, st, callee, args, dty, m):
    v = as_enum(ex, args[0], "Option")
    body = ex.closure_body(args[1])
    if body is None:
        return NotImplemented
    if m.group(1) == "map":
        return NotImplemented
    x = lambda: payload(ex, v, "Some")
    if v.variant is not None:
        if v.variant == "Some":
            return ("__inline__", body, [args[1], x()])
        return mk_none(dty)
    return ("__fork__", [(enum_is(ex, v, "Some"), ("__inline__", body, [args[1], x()])), (enum_is(ex, v, "None"), mk_none(dty))])


@model(r"(?:std|core)::slice::<impl \[&\[u8\]\]>::concat::<u8>$|(?:std|core)::slice::<impl \[Vec<u8>\]>::concat::<u8>$|<\[.*\] as Concat<u8>>::concat$")
def m_concat(ex, st, callee, args, dty, m):
    seq = deref(ex, args[0])
    if not isinstance(seq, Seq):
        raise Unsupported("concat of %s" % type(seq).__name__)
    parts = [deref(ex, p) for p in seq.items]
    if not all(isinstance(p, Bytes) for p in parts):
        raise Unsupported("concat of non-byte parts")
    k = z3.BitVec("ck!%d" % next(ex.fresh_counter), 64)
    total = bv(0, 64)
    expr = bv(0, 8)
    offs = []
    for p in parts:
        offs.append(total)
        total = z3.simplify(total + p.len.bv)
    # build nested ite from the last part backwards
    for p, off in reversed(list(zip(parts, offs))):
        expr = z3.If(z3.ULT(k, z3.simplify(off + p.len.bv)), z3.Select(p.arr, k - off), expr)
    return Bytes(I(total), z3.Lambda([k], expr))


@model(r"<(\w+) as (?:num_traits::)?ToPrimitive>::to_(u8|u32|u64|i64)$")
def m_to_primitive(ex, st, callee, args, dty, m):
    e = deref(ex, args[0])
    if not isinstance(e, EnumV):
        return NotImplemented
    d = ex.discr_of(e)
    d = d if isinstance(d, I) else I(bv(d, 64), True)
    return mk_some(dty, ex.cast_int(d, m.group(2)))


@model(r"<(\w+) as (?:num_traits::)?FromPrimitive>::from_(u8|u32|u64|i64)$|^(?:num_traits::)?FromPrimitive::from_(u8)$")
def m_from_primitive(ex, st, callee, args, dty, m):
    ty = m.group(1)
    if ty is None:
        mm = re.search(r"Option<(?:\w+::)*(\w+)>", dty or "")
        ty = mm.group(1) if mm else None
    vs = ex.variants_of(ty or "")
    if not vs or ty in ("Option", "Result"):
        return NotImplemented
    x = args[0]
    valid = z3.Or(*[x.bv == bv(d, x.width) for _, d in vs])
    # one symbolic enum value (discriminant = the integer) instead of one path per variant
    ev = EnumV(ty, None, I(z3.ZeroExt(64 - x.width, x.bv) if x.width < 64 else x.bv, True))
    return ("__fork__", [(valid, mk_some(dty, ev)), (z3.Not(valid), mk_none(dty))])


@model(r"Vec::<(.*)>::extend_from_slice$")
def m_vec_extend_from_slice_seq(ex, st, callee, args, dty, m):
    v = deref(ex, args[0])
    o = deref(ex, args[1])
    if isinstance(v, Seq) and isinstance(o, Seq):
        v.items.extend(ex.copy_value(x) for x in o.items)
        return UNIT
    return NotImplemented


@model(r"Vec::<(.*)>::append$")
def m_vec_append(ex, st, callee, args, dty, m):
    v = deref(ex, args[0])
    o = deref(ex, args[1])
    if isinstance(v, Bytes) and isinstance(o, Bytes):
        k = z3.BitVec("ak!%d" % next(ex.fresh_counter), 64)
        v.arr = z3.Lambda([k], z3.If(z3.ULT(k, v.len.bv), z3.Select(v.arr, k), z3.Select(o.arr, k - v.len.bv)))
        v.len = I(z3.simplify(v.len.bv + o.len.bv))
        o.len = I(bv(0, 64))
        return UNIT
    if isinstance(v, Seq) and isinstance(o, Seq):
        v.items.extend(o.items)
        o.items = []
        return UNIT
    if isinstance(args[0], Ref) and isinstance(o, Opaque):
        # appended list of unknown length: the result is a list of unknown length and content
        ex.set_path(args[0].cell, args[0].path, Opaque("appended!%d" % next(ex.fresh_counter), "Vec<%s>" % (m.group(1) or "?")))
        return UNIT
    return NotImplemented


@model(r"Vec::<u8>::extend::<.*>$|Vec::<u8>::extend_from_slice$|<Vec<u8> as Extend<&u8>>::extend::<.*>$|<Vec<u8> as Extend<u8>>::extend::<.*>$")
def m_vec_extend(ex, st, callee, args, dty, m):
    v = deref(ex, args[0])
    o = deref(ex, args[1])
    if not (isinstance(v, Bytes) and isinstance(o, Bytes)):
        return NotImplemented
    k = z3.BitVec("ek!%d" % next(ex.fresh_counter), 64)
    v.arr = z3.Lambda([k], z3.If(z3.ULT(k, v.len.bv), z3.Select(v.arr, k), z3.Select(o.arr, k - v.len.bv)))
    v.len = I(z3.simplify(v.len.bv + o.len.bv))
    return UNIT


@model(MAP_RE + r"::get_mut::<.*>$")
def m_map_get_mut(ex, st, callee, args, dty, m):
    mv = as_map(ex, args[0])
    if mv.entries is None:
        return NotImplemented
    k = args[1]
    # reference INTO the map entry so that writes are visible
    base = args[0]
    c, p = base.cell, base.path
    vv = ex.get_path(c, p)
    while isinstance(vv, Ref):
        c, p = vv.cell, vv.path
        vv = ex.get_path(c, p)
    outs = []
    none_cond = []
    for i, (pres, ek, ev) in enumerate(mv.entries):
        cnd = z3.simplify(z3.And(pres, key_eq(ex, ek, k)))
        none_cond.append(z3.Not(cnd))
        outs.append((cnd, mk_some(dty, Ref(ev, (), True))))
    outs.append((z3.And(*none_cond) if none_cond else z3.BoolVal(True), mk_none(dty)))
    return ("__fork__", outs)


# ---------------------------------------------------------------- iterator adaptors with closures over concrete-length sequences
from . import mir as _MIR
_DRIVER_COUNT = [0]


def _seq_item_refs(ex, it):
    """element references of a SeqIter (remaining elements)"""
    it = deref(ex, it)
    if not (isinstance(it, Agg) and it.name == "SeqIter"):
        return None
    seq_ref, pos = it.fields
    seq = deref(ex, seq_ref)
    if not isinstance(seq, Seq):
        return None
    c, p = (seq_ref.cell, seq_ref.path) if isinstance(seq_ref, Ref) else (Cell(seq), ())
    v = ex.get_path(c, p)
    while isinstance(v, Ref):
        c, p = v.cell, v.path
        v = ex.get_path(c, p)
    start = as_int(pos)
    it.fields[1] = u64(len(seq.items))
    return [Ref(c, p + (("i", u64(i)),), getattr(seq_ref, "mut", False)) for i in range(start, len(seq.items))]


def iter_driver(ex, kind, items, closure, dty):
    """synthetic MIR body that applies `closure` to each item in order (for_each / all / any / position)"""
    cbody = ex.closure_body(closure)
    if cbody is None:
        return NotImplemented
    by_ref = cbody.args[0][1].lstrip().startswith("&")
    n = len(items)
    _DRIVER_COUNT[0] += 1
    b = _MIR.Body("__iter_%s_%d" % (kind, _DRIVER_COUNT[0]), "synthetic")
    b.args = [("_1", "env")] + [("_%d" % (i + 2), "item") for i in range(n)]
    b.locals = dict(b.args)
    b.locals["_0"] = dty or "()"
    res = "_%d" % (n + 2)
    b.locals[res] = "bool" if kind in ("all", "any", "position", "find") else "()"
    token = "__closure_call__%d" % _DRIVER_COUNT[0]
    ex.models = [(re.compile(re.escape(token) + "$"), lambda ex_, st, callee, args, dt, mm, cb=cbody: ("__inline__", cb, args))] + list(ex.models)

    def blk(name):
        bb = _MIR.Block(name, False)
        b.blocks[name] = bb
        return bb
    for i in range(n):
        bb = blk("bb%d" % (2 * i))
        bb.term = ("call", ("local", res), token, [("copy", ("local", "_1")), ("copy", ("local", "_%d" % (i + 2)))], {"return": "bb%d" % (2 * i + 1)})
        chk = blk("bb%d" % (2 * i + 1))
        nxt = "bb%d" % (2 * i + 2)
        if kind == "for_each":
            chk.term = ("goto", nxt)
        elif kind == "all":
            chk.term = ("switch", ("copy", ("local", res)), [("0", "bbF"), ("otherwise", nxt)])
        elif kind == "any":
            chk.term = ("switch", ("copy", ("local", res)), [("0", nxt), ("otherwise", "bbT")])
        elif kind == "position":
            chk.term = ("switch", ("copy", ("local", res)), [("0", nxt), ("otherwise", "bbP%d" % i)])
            pb = blk("bbP%d" % i)
            pb.stmts.append(("assign", ("local", "_0"), ("variant", "Option::Some", [("const", "%d_usize" % i)])))
            pb.term = ("return",)
        elif kind == "find":
            chk.term = ("switch", ("copy", ("local", res)), [("0", nxt), ("otherwise", "bbP%d" % i)])
            pb = blk("bbP%d" % i)
            pb.stmts.append(("assign", ("local", "_0"), ("variant", "Option::Some", [("copy", ("local", "_%d" % (i + 2)))])))
            pb.term = ("return",)
    end = blk("bb%d" % (2 * n))
    if kind == "for_each":
        end.stmts.append(("assign", ("local", "_0"), ("use", ("const", "()"))))
    elif kind == "all":
        end.stmts.append(("assign", ("local", "_0"), ("use", ("const", "true"))))
    elif kind == "any":
        end.stmts.append(("assign", ("local", "_0"), ("use", ("const", "false"))))
    elif kind in ("position", "find"):
        end.stmts.append(("assign", ("local", "_0"), ("variant", "Option::None", [])))
    end.term = ("return",)
    if kind == "all":
        f = blk("bbF")
        f.stmts.append(("assign", ("local", "_0"), ("use", ("const", "false"))))
        f.term = ("return",)
    if kind == "any":
        t = blk("bbT")
        t.stmts.append(("assign", ("local", "_0"), ("use", ("const", "true"))))
        t.term = ("return",)
    env = closure
    if by_ref and not isinstance(closure, Ref):
        env = Ref(Cell(closure), (), True)
    if not by_ref and isinstance(closure, Ref):
        env = deref(ex, closure)
    return ("__inline__", b, [env] + list(items))


@model(r"<(?:std|core)::slice::Iter(?:Mut)?<'_, .*> as Iterator>::(for_each|all|any|position|find)::<.*>$|<(?:std::collections::)?vec_deque::Iter(?:Mut)?<'_, .*> as Iterator>::(for_each|all|any|position|find)::<.*>$|<(?:std::iter::|core::iter::)?TakeWhile<.*> as Iterator>::(for_each|all|any|position|find)::<.*>$|<(?:std::iter::|core::iter::)?Enumerate<.*> as Iterator>::(for_each|all|any|position)::<.*>$")
def m_iter_adaptor(ex, st, callee, args, dty, m):
    base = deref(ex, args[0]) if isinstance(args[0], Ref) else args[0]
    if isinstance(base, Agg) and base.name == "EnumIter":
        items = _adaptor_items(ex, base)       # (index, &element) pairs, by value
    else:
        items = _seq_item_refs(ex, args[0])
    if items is None:
        return NotImplemented
    kind = m.group(1) or m.group(2) or m.group(3) or m.group(4)
    if kind == "find":
        # the predicate receives `&Self::Item`; the result is the item itself
        res = iter_driver(ex, "find", [Ref(Cell(it), ()) for it in items], args[1], dty)
        if isinstance(res, tuple) and res[0] == "__inline__":
            body = res[1]
            for i, it in enumerate(items):
                pb = body.blocks.get("bbP%d" % i)
                if pb is not None:
                    pb.stmts[0] = ("assign", ("local", "_0"), ("variant", "Option::Some", [("copy", ("deref", ("local", "_%d" % (i + 2))))]))
        return res
    return iter_driver(ex, kind, items, args[1], dty)



@model(r"<(?:std::ops::|core::ops::)?Range<(usize|u64|u32)> as Iterator>::(for_each|all|any|position|find)::<.*>$")
def m_range_adaptor(ex, st, callee, args, dty, m):
    rng = deref(ex, args[0]) if isinstance(args[0], Ref) else args[0]
    if not (isinstance(rng, Agg) and "Range" in rng.name and len(rng.fields) >= 2):
        return NotImplemented
    a, b = rng.fields[0], rng.fields[1]
    if not (isinstance(a, I) and isinstance(b, I) and is_concrete(a) and is_concrete(b)):
        return NotImplemented
    lo, hi = as_int(a), as_int(b)
    if hi - lo > 64:
        return NotImplemented
    kind = m.group(2)
    vals = [const_int(i, m.group(1)) for i in range(lo, max(lo, hi))]
    rng.fields[0] = const_int(max(lo, hi), m.group(1))
    if kind == "find":
        res = iter_driver(ex, "find", [Ref(Cell(x), ()) for x in vals], args[1], dty)
        if isinstance(res, tuple) and res[0] == "__inline__":
            body = res[1]
            for i in range(len(vals)):
                pb = body.blocks.get("bbP%d" % i)
                if pb is not None:
                    pb.stmts[0] = ("assign", ("local", "_0"), ("variant", "Option::Some", [("copy", ("deref", ("local", "_%d" % (i + 2))))]))
        return res
    return iter_driver(ex, kind, vals, args[1], dty)


# ---------------------------------------------------------------- take_while adaptor (evaluated when the adaptor is built: the prefix of
# a concrete-length sequence on which the predicate holds; equivalent to the lazy adaptor for predicates without side effects)
@model(r"<(?:std|core)::slice::Iter(?:Mut)?<'_, .*> as Iterator>::take_while::<.*>$|<(?:std::collections::)?vec_deque::Iter(?:Mut)?<'_, .*> as Iterator>::take_while::<.*>$")
def m_iter_take_while(ex, st, callee, args, dty, m):
    items = _seq_item_refs(ex, args[0])
    if items is None:
        return NotImplemented
    closure = args[1]
    cbody = ex.closure_body(closure)
    if cbody is None:
        return NotImplemented
    n = len(items)
    _DRIVER_COUNT[0] += 1
    k = _DRIVER_COUNT[0]
    b = _MIR.Body("__iter_take_while_%d" % k, "synthetic")
    b.args = [("_1", "env")] + [("_%d" % (i + 2), "item") for i in range(n)]
    b.locals = dict(b.args)
    b.locals["_0"] = dty or "TakeWhile"
    res = "_%d" % (n + 2)
    b.locals[res] = "bool"
    tok_call = "__closure_call__%d" % k
    tok_done = "__take_while_done__%d" % k

    def done(ex_, st_, callee_, a, dt, mm, items=items):
        cnt = as_int(a[0])
        return Agg("struct", "SeqIter", [Ref(Cell(Seq(list(items[:cnt]))), ()), u64(0)])
    ex.models = [(re.compile(re.escape(tok_call) + "$"), lambda ex_, st_, callee_, a, dt, mm, cb=cbody: ("__inline__", cb, a)),
                 (re.compile(re.escape(tok_done) + "$"), done)] + list(ex.models)

    def blk(name):
        bb = _MIR.Block(name, False)
        b.blocks[name] = bb
        return bb
    for i in range(n):
        bb = blk("bb%d" % (2 * i))
        bb.term = ("call", ("local", res), tok_call, [("copy", ("local", "_1")), ("copy", ("local", "_%d" % (i + 2)))], {"return": "bb%d" % (2 * i + 1)})
        chk = blk("bb%d" % (2 * i + 1))
        chk.term = ("switch", ("copy", ("local", res)), [("0", "bbD%d" % i), ("otherwise", "bb%d" % (2 * i + 2))])
        d = blk("bbD%d" % i)
        d.term = ("call", ("local", "_0"), tok_done, [("const", "%d_usize" % i)], {"return": "bbR"})
    end = blk("bb%d" % (2 * n))
    end.term = ("call", ("local", "_0"), tok_done, [("const", "%d_usize" % n)], {"return": "bbR"})
    blk("bbR").term = ("return",)
    by_ref = cbody.args[0][1].lstrip().startswith("&")
    env = closure
    if by_ref and not isinstance(closure, Ref):
        env = Ref(Cell(closure), (), True)
    if not by_ref and isinstance(closure, Ref):
        env = deref(ex, closure)
    # the predicate receives `&Self::Item` (Item = &T): a reference to the element reference
    return ("__inline__", b, [env] + [Ref(Cell(it), ()) for it in items])


# ---------------------------------------------------------------- filter adaptor (lazy: each next() searches on from the current position)
@model(r"<(?:std|core)::slice::Iter(?:Mut)?<'_, .*> as Iterator>::filter::<.*>$")
def m_iter_filter(ex, st, callee, args, dty, m):
    it = args[0]
    base = deref(ex, it) if isinstance(it, Ref) else it
    if not (isinstance(base, Agg) and base.name == "SeqIter"):
        return NotImplemented
    return Agg("struct", "FilterIter", [base, args[1]])


@model(r"<(?:std::iter::|core::iter::)?Filter<.*> as IntoIterator>::into_iter$")
def m_filter_into_iter(ex, st, callee, args, dty, m):
    return args[0] if isinstance(args[0], Agg) and args[0].name == "FilterIter" else NotImplemented


@model(r"<(?:std::iter::|core::iter::)?Filter<.*> as Iterator>::next$")
def m_filter_next(ex, st, callee, args, dty, m):
    fref = args[0]
    f = deref(ex, fref)
    if not (isinstance(f, Agg) and f.name == "FilterIter"):
        return NotImplemented
    inner, closure = f.fields
    seq_ref, pos = inner.fields
    seq = deref(ex, seq_ref)
    if not isinstance(seq, Seq):
        return NotImplemented
    cbody = ex.closure_body(closure)
    if cbody is None:
        return NotImplemented
    c, p = (seq_ref.cell, seq_ref.path) if isinstance(seq_ref, Ref) else (Cell(seq), ())
    vv = ex.get_path(c, p)
    while isinstance(vv, Ref):
        c, p = vv.cell, vv.path
        vv = ex.get_path(c, p)
    start = as_int(pos)
    items = [Ref(c, p + (("i", u64(i)),), getattr(seq_ref, "mut", False)) for i in range(start, len(seq.items))]
    n = len(items)
    _DRIVER_COUNT[0] += 1
    k = _DRIVER_COUNT[0]
    b = _MIR.Body("__iter_filter_next_%d" % k, "synthetic")
    b.args = [("_1", "env"), ("_F", "filter")] + [("_%d" % (i + 2), "item") for i in range(n)]
    b.locals = dict(b.args)
    b.locals["_0"] = dty or "Option"
    res = "_%d" % (n + 2)
    b.locals[res] = "bool"
    tok_call = "__closure_call__%d" % k
    tok_done = "__filter_done__%d" % k

    def done(ex_, st_, callee_, a, dt, mm, start=start, n=n, dty=dty):
        fil = deref(ex_, a[0])
        idx = as_int(a[1])
        fil.fields[0].fields[1] = u64(start + min(idx + 1, n))
        if idx >= n:
            return mk_none(dty)
        return mk_some(dty, a[2])
    ex.models = [(re.compile(re.escape(tok_call) + "$"), lambda ex_, st_, callee_, a, dt, mm, cb=cbody: ("__inline__", cb, a)),
                 (re.compile(re.escape(tok_done) + "$"), done)] + list(ex.models)

    def blk(name):
        bb = _MIR.Block(name, False)
        b.blocks[name] = bb
        return bb
    for i in range(n):
        bb = blk("bb%d" % (2 * i))
        bb.term = ("call", ("local", res), tok_call, [("copy", ("local", "_1")), ("copy", ("local", "_%d" % (i + 2)))], {"return": "bb%d" % (2 * i + 1)})
        chk = blk("bb%d" % (2 * i + 1))
        chk.term = ("switch", ("copy", ("local", res)), [("0", "bb%d" % (2 * i + 2)), ("otherwise", "bbP%d" % i)])
        pb = blk("bbP%d" % i)
        pb.term = ("call", ("local", "_0"), tok_done, [("copy", ("local", "_F")), ("const", "%d_usize" % i), ("copy", ("deref", ("local", "_%d" % (i + 2))))], {"return": "bbR"})
    end = blk("bb%d" % (2 * n))
    end.term = ("call", ("local", "_0"), tok_done, [("copy", ("local", "_F")), ("const", "%d_usize" % n), ("const", "()")], {"return": "bbR"})
    blk("bbR").term = ("return",)
    by_ref = cbody.args[0][1].lstrip().startswith("&")
    env = closure
    if by_ref and not isinstance(closure, Ref):
        env = Ref(Cell(closure), (), True)
    if not by_ref and isinstance(closure, Ref):
        env = deref(ex, closure)
    return ("__inline__", b, [env, fref] + [Ref(Cell(it), ()) for it in items])


# ---------------------------------------------------------------- more containers: VecDeque, HashMap iteration / entry API, Ord::cmp
@model(r"VecDeque::<.*>::make_contiguous$|VecDeque::<.*>::as_mut_slices$")
def m_make_contiguous(ex, st, callee, args, dty, m):
    return args[0]


@model(r"(?:std|core)::slice::<impl \[.*\]>::sort_by::<.*>$|(?:std|core)::slice::<impl \[.*\]>::sort_unstable_by::<.*>$")
def m_sort_by_identity(ex, st, callee, args, dty, m):
    if getattr(ex, "sort_real", False):
        return _sort_driver(ex, st, args)
    # ASSUMPTION (stated by the obligations that reach this): the slice is already sorted by the
    # comparison closure, so a stable sort is the identity
    st.events.append(("assume-sorted", callee, args, None))
    return UNIT


def _sort_driver(ex, st, args):
    """sort_by over a tracked sequence of concrete length n (executors that set `sort_real`): a
    bubble-sort network of n(n-1)/2 compare-exchange steps, each calling the real comparison closure
    on the two current elements and swapping them when it answers Greater. For a comparator that is
    a strict weak order the result is the stable sorted order."""
    sref = args[0]
    seq = deref(ex, sref)
    if not isinstance(seq, Seq):
        return NotImplemented
    closure = args[1]
    cbody = ex.closure_body(closure)
    if cbody is None:
        return NotImplemented
    c, p = sref.cell, sref.path
    vv = ex.get_path(c, p)
    while isinstance(vv, Ref):
        c, p = vv.cell, vv.path
        vv = ex.get_path(c, p)
    n = len(seq.items)
    pairs = [(j, j + 1) for rnd in range(n - 1) for j in range(n - 1 - rnd)]
    _DRIVER_COUNT[0] += 1
    k = _DRIVER_COUNT[0]
    b = _MIR.Body("__sort_by_%d" % k, "synthetic")
    b.args = [("_1", "env"), ("_S", "seq")] + [("_%d" % (i + 2), "item") for i in range(n)]
    b.locals = dict(b.args)
    b.locals["_0"] = "()"
    b.locals["_R"] = "Ordering"
    b.locals["_G"] = "bool"
    b.locals["_U"] = "()"
    tok_call, tok_gt, tok_swap = "__closure_call__%d" % k, "__sort_is_gt__%d" % k, "__sort_swap__%d" % k

    def is_gt(ex_, st_, callee_, a, dt, mm):
        o = a[0]
        d = ex_.discr_of(o)
        if isinstance(d, I):
            return d.bv == z3.BitVecVal(1, d.bv.size())
        return z3.BoolVal(d == 1)

    def swap(ex_, st_, callee_, a, dt, mm):
        s = deref(ex_, a[0])
        i, j = as_int(a[1]), as_int(a[2])
        s.items[i], s.items[j] = s.items[j], s.items[i]
        return UNIT
    ex.models = [(re.compile(re.escape(tok_call) + "$"), lambda ex_, st_, callee_, a, dt, mm, cb=cbody: ("__inline__", cb, a)),
                 (re.compile(re.escape(tok_gt) + "$"), is_gt), (re.compile(re.escape(tok_swap) + "$"), swap)] + list(ex.models)

    def blk(name):
        bb = _MIR.Block(name, False)
        b.blocks[name] = bb
        return bb
    for t, (i, j) in enumerate(pairs):
        bb = blk("bb%d" % (4 * t))
        bb.term = ("call", ("local", "_R"), tok_call, [("copy", ("local", "_1")), ("copy", ("local", "_%d" % (i + 2))), ("copy", ("local", "_%d" % (j + 2)))], {"return": "bb%d" % (4 * t + 1)})
        g = blk("bb%d" % (4 * t + 1))
        g.term = ("call", ("local", "_G"), tok_gt, [("copy", ("local", "_R"))], {"return": "bb%d" % (4 * t + 2)})
        sw = blk("bb%d" % (4 * t + 2))
        sw.term = ("switch", ("copy", ("local", "_G")), [("0", "bb%d" % (4 * t + 4)), ("otherwise", "bb%d" % (4 * t + 3))])
        sp = blk("bb%d" % (4 * t + 3))
        sp.term = ("call", ("local", "_U"), tok_swap, [("copy", ("local", "_S")), ("const", "%d_usize" % i), ("const", "%d_usize" % j)], {"return": "bb%d" % (4 * t + 4)})
    blk("bb%d" % (4 * len(pairs))).term = ("return",)
    by_ref = cbody.args[0][1].lstrip().startswith("&")
    env = closure
    if by_ref and not isinstance(closure, Ref):
        env = Ref(Cell(closure), (), True)
    if not by_ref and isinstance(closure, Ref):
        env = deref(ex, closure)
    items = [Ref(c, p + (("i", u64(i)),), False) for i in range(n)]
    return ("__inline__", b, [env, Ref(c, p, True)] + items)


@model(r"VecDeque::<.*>::(iter_mut|iter)$|<&(?:mut )?VecDeque<.*> as IntoIterator>::into_iter$|(?:std|core)::slice::<impl \[.*\]>::iter_mut$|Vec::<.*>::iter_mut$|<&(?:mut )?Vec<.*> as IntoIterator>::into_iter$")
def m_deque_iter(ex, st, callee, args, dty, m):
    v = deref(ex, args[0])
    if isinstance(v, Seq):
        return Agg("struct", "SeqIter", [args[0], u64(0)])
    return NotImplemented


@model(r"<(?:std::collections::)?vec_deque::Iter(?:Mut)?<'_, .*> as Iterator>::next$|<(?:std|core)::slice::IterMut<'_, .*> as Iterator>::next$")
def m_deque_iter_next(ex, st, callee, args, dty, m):
    return m_slice_iter_next(ex, st, callee, args, dty, m)


@model(r"VecDeque::<(.*)>::pop_front$")
def m_vecdeque_pop_front(ex, st, callee, args, dty, m):
    v = deref(ex, args[0])
    if not isinstance(v, Seq):
        return NotImplemented
    if not v.items:
        return mk_none(dty)
    return mk_some(dty, v.items.pop(0))


@model(r"VecDeque::<.*>::push_back$")
def m_deque_push_back(ex, st, callee, args, dty, m):
    v = deref(ex, args[0])
    if isinstance(v, Seq):
        v.items.append(args[1])
        return UNIT
    return NotImplemented


@model(MAP_RE + r"::(values|keys)$")
def m_map_values(ex, st, callee, args, dty, m):
    mv = as_map(ex, args[0])
    if mv.entries is None:
        return NotImplemented
    items = []
    for e in mv.entries:
        if not z3.is_true(z3.simplify(e[0])):
            raise Unsupported("iteration over a map with conditionally present entries")
        if m.group(m.lastindex) == "keys":
            items.append(e[1])
        else:
            items.append(e[2].v if isinstance(e[2], Cell) else e[2])
    return Agg("struct", "SeqIter", [Ref(Cell(Seq(items)), ()), u64(0)])


@model(MAP_RE + r"::(iter_mut|iter)$|<&(?:mut )?(?:std::collections::|ahash::)?A?HashMap<.*> as IntoIterator>::into_iter$")
def m_map_iter(ex, st, callee, args, dty, m):
    mv = as_map(ex, args[0])
    if mv.entries is None:
        return NotImplemented
    items = []
    is_set = "HashSet" in callee
    for e in mv.entries:
        if not z3.is_true(z3.simplify(e[0])):
            raise Unsupported("iteration over a map with conditionally present entries")
        if is_set:
            items.append(Ref(Cell(e[1]), ()))
        else:
            items.append(Agg("tuple", "(k,v)", [Ref(Cell(e[1]), ()), Ref(e[2], (), True)]))
    return Agg("struct", "SeqIter", [Ref(Cell(Seq(items)), ()), u64(0)])


@model(r"<(?:std::collections::)?hash_map::Iter(?:Mut)?<'_, .*> as Iterator>::next$")
def m_map_iter_next(ex, st, callee, args, dty, m):
    it = deref(ex, args[0])
    if not (isinstance(it, Agg) and it.name == "SeqIter"):
        return NotImplemented
    seq = deref(ex, it.fields[0])
    i = as_int(it.fields[1])
    if i >= len(seq.items):
        return mk_none(dty)
    it.fields[1] = u64(i + 1)
    return mk_some(dty, seq.items[i])


@model(MAP_RE + r"::entry$")
def m_map_entry(ex, st, callee, args, dty, m):
    mv = as_map(ex, args[0])
    if mv.entries is None:
        return NotImplemented
    return Agg("struct", "MapEntry", [args[0], args[1]])


@model(r"(?:std::collections::)?hash_map::Entry::<'_, .*>::or_default$|Entry::<'_, .*>::or_default$")
def m_entry_or_default(ex, st, callee, args, dty, m):
    e = args[0]
    if not (isinstance(e, Agg) and e.name == "MapEntry"):
        return NotImplemented
    mv = as_map(ex, e.fields[0])
    k = e.fields[1]
    # concrete decision only: keys compared syntactically through the solver-free simplifier
    for ent in mv.entries:
        c = z3.simplify(z3.And(ent[0], key_eq(ex, ent[1], k)))
        if z3.is_true(c):
            return Ref(ent[2], (), True)
        if not z3.is_false(c):
            raise Unsupported("entry() on a key whose presence is symbolic")
    mt = re.search(r"Vec<(.*)>>::or_default$", callee)
    newc = Cell(Seq([], None))
    mv.entries.append([z3.BoolVal(True), k, newc])
    return Ref(newc, (), True)


@model(r"<(u8|u16|u32|u64|usize|i32|i64) as (?:std::cmp::|core::cmp::)?Ord>::cmp$|(?:std|core)::cmp::impls::<impl Ord for (u8|u16|u32|u64|usize|i32|i64)>::cmp$")
def m_int_cmp(ex, st, callee, args, dty, m):
    a, b = deref(ex, args[0]), deref(ex, args[1])
    return ex.binop("Cmp", a, b)


# ---------------------------------------------------------------- sets: iteration and collect
SET_ITER = r"(?:std::collections::)?hash_set::Iter<'_, .*>"


@model(r"(?:std::collections::|ahash::)?(?:AHashSet|HashSet)::<.*>::iter$|<&(?:ahash::)?(?:AHashSet|HashSet)<.*> as IntoIterator>::into_iter$")
def m_set_iter(ex, st, callee, args, dty, m):
    mv = as_map(ex, args[0])
    if mv.entries is None:
        return NotImplemented
    items = []
    for e in mv.entries:
        if not z3.is_true(z3.simplify(e[0])):
            raise Unsupported("iteration over a set with conditionally present entries")
        items.append(Ref(Cell(e[1]), ()))
    return Agg("struct", "SeqIter", [Ref(Cell(Seq(items)), ()), u64(0)])


@model(r"<" + SET_ITER + r" as Iterator>::next$")
def m_set_iter_next(ex, st, callee, args, dty, m):
    return m_map_iter_next(ex, st, callee, args, dty, m)


@model(r"<" + SET_ITER + r" as Iterator>::collect::<Vec<.*>>$|<(?:std|core)::slice::Iter<'_, .*> as Iterator>::collect::<Vec<.*>>$")
def m_iter_collect(ex, st, callee, args, dty, m):
    it = deref(ex, args[0]) if isinstance(args[0], Ref) else args[0]
    if not (isinstance(it, Agg) and it.name == "SeqIter"):
        return NotImplemented
    seq = deref(ex, it.fields[0])
    i = as_int(it.fields[1])
    return Seq(list(seq.items[i:]))


@model(r"<(?:std::)?vec::IntoIter<.*> as Iterator>::next$")
def m_vec_into_iter_next(ex, st, callee, args, dty, m):
    it = deref(ex, args[0])
    if not (isinstance(it, Agg) and it.name == "SeqIter"):
        return NotImplemented
    seq = deref(ex, it.fields[0])
    i = as_int(it.fields[1])
    if i >= len(seq.items):
        return mk_none(dty)
    it.fields[1] = u64(i + 1)
    return mk_some(dty, seq.items[i])


@model(r"<Vec<.*> as IntoIterator>::into_iter$")
def m_vec_into_iter(ex, st, callee, args, dty, m):
    v = args[0]
    if isinstance(v, Seq):
        return Agg("struct", "SeqIter", [Ref(Cell(v), ()), u64(0)])
    return NotImplemented


@model(r"(?:std|core)::slice::<impl \[.*\]>::contains$|Vec::<.*>::contains$")
def m_slice_contains(ex, st, callee, args, dty, m):
    seq = deref(ex, args[0])
    if not isinstance(seq, Seq):
        return NotImplemented
    x = args[1]
    conds = [value_eq(ex, it, x) for it in seq.items]
    return z3.simplify(z3.Or(*conds)) if conds else z3.BoolVal(False)


@model(r"(?:std|core)::slice::<impl \[.*\]>::binary_search$")
def m_binary_search(ex, st, callee, args, dty, m):
    """specified only for sorted slices; the model gives the specified answer when the slice has
    at most one element (trivially sorted) and an arbitrary answer otherwise"""
    seq = deref(ex, args[0])
    if isinstance(seq, Seq) and len(seq.items) <= 1:
        x = args[1]
        if not seq.items:
            return mk_err(dty, u64(0))
        eq = value_eq(ex, seq.items[0], x)
        return ("__fork__", [(eq, mk_ok(dty, u64(0))), (z3.Not(eq), mk_err(dty, ex.fresh("bs_pos", "usize")))])
    return NotImplemented


# ---------------------------------------------------------------- map / enumerate adaptors and sum / collect drivers
@model(r"<(?:std|core)::slice::Iter(?:Mut)?<'_, .*> as Iterator>::(map|enumerate)(?:::<.*>)?$|<(?:std::iter::|core::iter::)?Enumerate<.*> as Iterator>::map::<.*>$")
def m_iter_map(ex, st, callee, args, dty, m):
    it = args[0]
    base = deref(ex, it) if isinstance(it, Ref) else it
    if not (isinstance(base, Agg) and base.name in ("SeqIter", "EnumIter")):
        return NotImplemented
    if callee.rstrip().endswith("enumerate") or "::enumerate" in callee.split("::<")[0][-12:]:
        return Agg("struct", "EnumIter", [base])
    return Agg("struct", "MapIter", [base, args[1]])


def _adaptor_items(ex, it):
    """items yielded by a SeqIter / EnumIter"""
    if isinstance(it, Agg) and it.name == "EnumIter":
        inner = _adaptor_items(ex, it.fields[0])
        return None if inner is None else [Agg("tuple", "(usize,T)", [u64(i), x]) for i, x in enumerate(inner)]
    return _seq_item_refs(ex, it)


def sum_driver(ex, items, closure, dty, collect=False):
    cbody = ex.closure_body(closure)
    if cbody is None:
        return NotImplemented
    by_ref = cbody.args[0][1].lstrip().startswith("&")
    n = len(items)
    _DRIVER_COUNT[0] += 1
    b = _MIR.Body("__iter_%s_%d" % ("collect" if collect else "sum", _DRIVER_COUNT[0]), "synthetic")
    b.args = [("_1", "env")] + [("_%d" % (i + 2), "item") for i in range(n)]
    b.locals = dict(b.args)
    b.locals["_0"] = dty or "u64"
    token = "__closure_call__%d" % _DRIVER_COUNT[0]
    ex.models = [(re.compile(re.escape(token) + "$"), lambda ex_, st, callee, args, dt, mm, cb=cbody: ("__inline__", cb, args))] + list(ex.models)
    acc = "_%d" % (n + 2)
    b.locals[acc] = dty or "u64"
    first = _MIR.Block("bb0", False)
    b.blocks["bb0"] = first
    if not collect:
        first.stmts.append(("assign", ("local", acc), ("use", ("const", "0_" + (dty if dty in INT_TYPES else "u64")))))
    first.term = ("goto", "bb1")
    rs = []
    for i in range(n):
        r = "_%d" % (n + 3 + i)
        rs.append(r)
        b.locals[r] = (dty if dty in INT_TYPES else "u64") if not collect else "elem"
        bb = _MIR.Block("bb%d" % (i + 1), False)
        b.blocks[bb.name] = bb
        bb.term = ("call", ("local", r), token, [("copy", ("local", "_1")), ("copy", ("local", "_%d" % (i + 2)))], {"return": "bb%d" % (i + 2)})
    end = _MIR.Block("bb%d" % (n + 1), False)
    b.blocks[end.name] = end
    if collect:
        end.stmts.append(("assign", ("local", "_0"), ("array", [("move", ("local", r)) for r in rs])))
    else:
        # release-build semantics of `impl Sum for u64`: wrapping addition (rustc_inherit_overflow_checks:
        # the dev build panics instead; the overflow is recorded as an event by the obligation)
        prev = acc
        for i, r in enumerate(rs):
            nxt = "_%d" % (2 * n + 3 + i)
            b.locals[nxt] = dty or "u64"
            end.stmts.append(("assign", ("local", nxt), ("binop", "Add", ("copy", ("local", prev)), ("copy", ("local", r)))))
            prev = nxt
        end.stmts.append(("assign", ("local", "_0"), ("use", ("copy", ("local", prev)))))
    end.term = ("return",)
    env = closure
    if by_ref and not isinstance(closure, Ref):
        env = Ref(Cell(closure), (), True)
    return ("__inline__", b, [env] + list(items))


@model(r"<(?:std|core)::slice::Iter<'_, (u8|u16|u32|u64|u128|usize)> as Iterator>::sum::<(?:&?)(?:u8|u16|u32|u64|u128|usize)>$")
def m_slice_iter_sum(ex, st, callee, args, dty, m):
    items = _seq_item_refs(ex, args[0])
    if items is None:
        return NotImplemented
    w = INT_TYPES[m.group(1)][0]
    total = bv(0, w)
    for r in items:
        x = deref(ex, r)
        if not isinstance(x, I):
            return NotImplemented
        total = total + x.bv          # release-build semantics of `impl Sum`: wrapping (the dev build panics on overflow)
    return I(z3.simplify(total), False)


@model(r"<(?:std::iter::|core::iter::)?Map<.*> as Iterator>::sum::<(u64|u32|usize)>$")
def m_map_sum(ex, st, callee, args, dty, m):
    it = args[0]
    if not (isinstance(it, Agg) and it.name == "MapIter"):
        return NotImplemented
    items = _adaptor_items(ex, it.fields[0])
    if items is None:
        return NotImplemented
    return sum_driver(ex, items, it.fields[1], m.group(1))


@model(r"<(?:std::iter::|core::iter::)?Enumerate<.*> as Iterator>::next$")
def m_enumerate_next(ex, st, callee, args, dty, m):
    it = deref(ex, args[0])
    if not (isinstance(it, Agg) and it.name == "EnumIter"):
        return NotImplemented
    inner = it.fields[0]
    seq = deref(ex, inner.fields[0])
    i = as_int(inner.fields[1])
    if i >= len(seq.items):
        return mk_none(dty)
    inner.fields[1] = u64(i + 1)
    seq_ref = inner.fields[0]
    c, p = (seq_ref.cell, seq_ref.path) if isinstance(seq_ref, Ref) else (Cell(seq), ())
    v = ex.get_path(c, p)
    while isinstance(v, Ref):
        c, p = v.cell, v.path
        v = ex.get_path(c, p)
    return mk_some(dty, Agg("tuple", "(usize,&T)", [u64(i), Ref(c, p + (("i", u64(i)),))]))


@model(r"<(?:std::iter::|core::iter::)?Enumerate<.*> as IntoIterator>::into_iter$")
def m_enumerate_into_iter(ex, st, callee, args, dty, m):
    return args[0]


# ---------------------------------------------------------------- Box and LinkedList
@model(r"Box::<.*>::new$")
def m_box_new(ex, st, callee, args, dty, m):
    return Agg("box", "Box", [Ref(Cell(args[0]), (), True)])


@model(r"LinkedList::<.*>::new$|<LinkedList<.*> as Default>::default$")
def m_ll_new(ex, st, callee, args, dty, m):
    return Seq([], None)


@model(r"LinkedList::<.*>::push_back$")
def m_ll_push_back(ex, st, callee, args, dty, m):
    v = deref(ex, args[0])
    if isinstance(v, Seq):
        v.items.append(args[1])
        return UNIT
    return NotImplemented


@model(r"LinkedList::<.*>::pop_front$")
def m_ll_pop_front(ex, st, callee, args, dty, m):
    v = deref(ex, args[0])
    if isinstance(v, Seq):
        if v.items:
            return mk_some(dty, v.items.pop(0))
        return mk_none(dty)
    return NotImplemented


@model(r"LinkedList::<.*>::(len|is_empty|clear)$")
def m_ll_misc(ex, st, callee, args, dty, m):
    v = deref(ex, args[0])
    if not isinstance(v, Seq):
        return NotImplemented
    if m.group(1) == "len":
        return u64(len(v.items))
    if m.group(1) == "is_empty":
        return z3.BoolVal(len(v.items) == 0)
    v.items[:] = []
    return UNIT


@model(r"Option::<.*>::unwrap_or$")
def m_unwrap_or_val(ex, st, callee, args, dty, m):
    v = as_enum(ex, args[0], "Option")
    if v.variant is not None:
        return payload(ex, v, "Some") if v.variant == "Some" else args[1]
    return ("__fork__", [(enum_is(ex, v, "Some"), payload(ex, v, "Some")), (enum_is(ex, v, "None"), args[1])])


@model(r"<(?:std::iter::|core::iter::)?Map<.*> as Iterator>::collect::<Vec<.*>>$")
def m_map_collect(ex, st, callee, args, dty, m):
    it = args[0]
    if not (isinstance(it, Agg) and it.name == "MapIter"):
        return NotImplemented
    items = _adaptor_items(ex, it.fields[0])
    if items is None:
        return NotImplemented
    if not items:
        return Seq([], None)
    return sum_driver(ex, items, it.fields[1], dty, collect=True)
