"""C13 — automatic rebroadcast (engine M gates)."""
import re
import z3
from . import sym as S, lib as L, bv_explore as BV
from .models import value_eq
from .obl_c08 import _sel
from .obl_c01 import _closure_setup, _tx_validate_result


def c13_validate_rebroadcast_gate(ctx, v):
    """Block::validate(.., validate_against_utxo = true) returns true (full node, non-ghost,
    non-ghost parent)  =>  the block's rebroadcast commitment equals the one recomputed by
    generate_consensus_values: rebroadcast_hash and total_rebroadcast_slips."""
    got = _sel(ctx, v)
    if got is None:
        return
    r, sel = got
    ex = r["ex"]
    n = 0
    for o, cond in sel:
        aw = [e for e in o.events if e[0] == "await" and re.search(r"generate_consensus_values", e[1])]
        if not aw:
            continue
        cv = aw[0][3]
        c2 = z3.And(cond, r["vau"])
        if not ex.feasible(o.pc, c2):
            continue
        v.queries += 2
        ok = True
        for f in ("rebroadcast_hash", "total_rebroadcast_slips"):
            a = ex.step_get(ex.deref_value(cv), ("f", ctx.field_index("ConsensusValues", f), ctx.norm_type(ctx.field_type("ConsensusValues", f))))
            b = BV.block_field(ctx, r, o, f)
            rr, m = ex.model_for(o.pc, z3.And(c2, z3.Not(value_eq(ex, a, b))))
            if rr == z3.sat:
                ok = False
                v.fail("Block::validate returns true although the block's %s differs from the recomputed one" % f, dict(path=L.trace_text(o, 10)))
        n += 1 if ok else 0
    v.covers_total += 1
    v.covers_sat += 1 if n else 0


def c13_atr_inputs_recorded(ctx, v):
    """the in-block double-spend scan also covers ATR (rebroadcast) transactions: after an
    accepting step on an ATR transaction every value-carrying input's key is recorded, and an
    ATR transaction whose input is already recorded (spent by a user transaction of the same
    block) is rejected — an output cannot be both spent and rebroadcast."""
    for K in (1, 2):
        ex = ctx.executor(loop_bound=K + 2)
        body, env, tx, slips, txtype, pre_keys, smap, pre = _closure_setup(ctx, ex, K)
        st = S.State()
        st.pc.extend(pre + [L.enum_is(ctx, txtype, "TransactionType", "ATR")])
        outs = ex.run(body, [S.Ref(S.Cell(env), (), True), S.Ref(S.Cell(tx))], st)
        v.paths += len(outs)
        keys = [L.utxo_key_of(ctx, ex, s) for s in slips]
        relevant = [z3.And(L.slip_field(ctx, s, "amount").bv != 0, z3.Not(L.enum_is(ctx, L.slip_field(ctx, s, "slip_type"), "SlipType", "Bound"))) for s in slips]
        seen = False
        for o in outs:
            if o.kind in ("unsupported", "unwound", "path-limit"):
                return v.undecided("%s K=%d: %s" % (o.kind, K, o.info))
            if o.kind != "return":
                continue
            res = _tx_validate_result(o)
            if res is None:
                continue
            ret = o.value
            for i in range(K):
                hit = z3.Or(*[value_eq(ex, keys[i], pk) for pk in pre_keys])
                rr, m = ex.model_for(o.pc, z3.And(res, ret, relevant[i], hit))
                v.queries += 1
                if rr == z3.sat:
                    v.fail("K=%d: an ATR transaction re-using an output already spent in this block is accepted (output both spent and rebroadcast)" % K, dict(path=L.trace_text(o)))
                fmap = o.state.frames[0].locals["_1"].v.cell.v.fields[3].cell.v
                inmap = z3.Or(*[z3.And(p, value_eq(ex, ek, keys[i])) for p, ek, ev in fmap.entries])
                rr, m = ex.model_for(o.pc, z3.And(res, ret, relevant[i], z3.Not(inmap)))
                v.queries += 1
                if rr == z3.sat:
                    v.fail("K=%d: an ATR transaction's input %d is not recorded by the double-spend scan" % (K, i), dict(path=L.trace_text(o)))
            rr, _ = ex.model_for(o.pc, z3.And(res, ret))
            seen = seen or rr == z3.sat
        v.covers_total += 1
        v.covers_sat += 1 if seen else 0


def c13_generate_commits_every_atr(ctx, v):
    """Block::generate (run on every received block before validation): every ATR-typed
    transaction carried by the block is folded into the block's rebroadcast commitment
    (rebroadcast_hash = hash(previous ‖ tx.serialize_for_signature())), whatever its slips look
    like; transactions of other types are not.  Together with the validator's comparison of that
    commitment with the recomputed one (c13_validate_rebroadcast_gate) an unsolicited ATR-typed
    transaction cannot ride in an accepted block."""
    body = ctx.body(r"block::<impl at [^>]*>::generate$")
    for n in (1, 2):
        ex = ctx.executor(loop_bound=n + 4, inline="auto", max_paths=8000,
                          no_inline=[r"Transaction::generate$", r"generate_merkle_root$", r"generate_pre_hash$", r"generate_hash$", r"generate_transaction_hashmap$", r"serialize_for_signature$", r"generate_cumulative_fees$"])
        ex.pure = [r".*"]
        txs, types = [], []
        for i in range(n):
            t = ex.fresh_value("TransactionType", "tx%d.type" % i)
            nout = 2
            outs = [L.sym_slip(ctx, ex, "tx%d.out%d" % (i, k)) for k in range(nout)]
            txs.append(ctx.mk_struct(ex, "Transaction", "tx%d" % i, transaction_type=t, **{"from": S.Seq([], "Slip"), "to": S.Seq(outs, "Slip"), "path": S.Seq([], "Hop")}))
            types.append(t)
        block = ctx.mk_struct(ex, "Block", "block", transactions=S.Seq(txs, "Transaction"))
        st = S.State()
        st.pc.extend([L.enum_in_range(t, L.TX_TYPES) for t in types])
        for tx in txs:
            for s in tx.fields[ctx.field_index("Transaction", "to")].items:
                st.pc.append(L.enum_in_range(L.slip_field(ctx, s, "slip_type"), L.SLIP_TYPES))
            st.pc.append(z3.ULE(tx.fields[ctx.field_index("Transaction", "total_work_for_me")].bv, 7 * 10**17))
        outs = ex.run(body, [S.Ref(S.Cell(block), (), True)], st)
        v.paths += len(outs)
        seen = 0
        for o in outs:
            if o.kind in ("unsupported", "unwound", "path-limit"):
                return v.undecided("n=%d %s %s" % (n, o.kind, o.info))
            if o.kind != "return":
                continue
            # which transactions had their signing serialisation hashed into the commitment
            folded = set()
            for e in o.events:
                if e[0] == "call" and re.search(r"Transaction::serialize_for_signature$", e[1]):
                    a = e[2][0]
                    if isinstance(a, S.Ref) and a.path and a.path[-1][0] == "i":
                        folded.add(S.as_int(a.path[-1][1]))
            for i in range(n):
                is_atr = L.enum_is(ctx, types[i], "TransactionType", "ATR")
                cond = z3.Not(is_atr) if i in folded else is_atr
                r, m = ex.model_for(o.pc, cond)
                v.queries += 1
                if r == z3.sat:
                    what = ("block of %d: an ATR-typed transaction is not folded into the rebroadcast commitment" % n) if i not in folded else ("block of %d: a non-ATR transaction is folded into the rebroadcast commitment" % n)
                    v.fail(what, dict(tx=i, out_slip_types=[m.eval(L.slip_field(ctx, s, "slip_type").discr.bv, model_completion=True).as_long() for s in txs[i].fields[ctx.field_index("Transaction", "to")].items]))
            seen += 1
        v.covers_total += 1
        v.covers_sat += 1 if seen else 0


def c13_pruned_block_selection(ctx, v):
    """Block::generate_consensus_values: the block whose unspent outputs are rebroadcast is the
    LONGEST-CHAIN block at height self.id - (genesis_period + 1): on every path that goes on to
    load that block from disk, its hash was obtained from
    BlockRing::get_longest_chain_block_hash_at_block_id with exactly that height (not from an
    accessor that ignores the longest-chain designation)."""
    ex = ctx.executor(loop_bound=4, inline="auto", max_paths=6000, no_inline=[r"BurnFee::", r"get_longest_chain_block_hash_at_block_id$", r"get_block_hash_by_block_id$", r"Storage::", r"MerkleTree::"])
    ex.pure = [r".*"]
    ex.stop_calls = [r"Storage::load_block_from_disk$"]
    gp = ex.fresh_value("u64", "genesis_period")
    ccfg = ctx.mk_struct(ex, "ConsensusConfig", "consensus", genesis_period=gp)

    prev_idx = ctx.field_index("Block", "previous_block_hash")

    def hook(ex_, st, callee, args, dty):
        if re.search(r"::get_consensus_config$", callee):
            from .models import mk_some
            return mk_some(dty, S.Ref(S.Cell(ccfg)))
        if re.search(r"AHashMap::<\[u8; 32\], Block>::get::", callee):
            k = args[1]
            if isinstance(k, S.Ref) and k.path and k.path[-1][0] == "f" and k.path[-1][1] == prev_idx:
                # scenario: the parent block is not indexed (its burn-fee / difficulty arithmetic is
                # independent of the rebroadcast section and is skipped)
                from .models import mk_none
                st.events.append(("call", callee, args, None))
                return mk_none(dty)
        return None
    ex.on_call = hook
    bid = ex.fresh_value("u64", "block.id")
    block = ctx.mk_struct(ex, "Block", "block", id=bid, transactions=S.Seq([], "Transaction"))
    st = S.State()
    st.pc.extend([z3.ULE(gp.bv, 1 << 32), z3.UGE(gp.bv, 1)])
    body, co = L.coroutine(ctx, ex, r"block::<impl at [^>]*>::generate_consensus_values",
                           [S.Ref(S.Cell(block)), S.Ref(S.Cell(S.Opaque("blockchain", "Blockchain"))), S.Ref(S.Cell(S.Opaque("storage", "Storage"))), S.Ref(S.Cell(S.Opaque("cfg", "dyn Configuration")))])
    outs = ex.run(body, [S.Ref(S.Cell(co), (), True), S.Opaque("cx", "Context")], st)
    v.paths += len(outs)
    reached = 0
    for o in outs:
        if o.kind in ("unsupported", "path-limit"):
            return v.undecided("%s %s" % (o.kind, o.info))
        if o.kind != "stopped":
            continue
        if not ex.feasible(o.pc):
            continue
        reached += 1
        v.queries += 1
        lc = [e for e in o.events if e[0] == "call" and re.search(r"BlockRing::get_longest_chain_block_hash_at_block_id$", e[1])]
        want = bid.bv - (gp.bv + 1)
        good = [e for e in lc if isinstance(e[2][1], S.I) and not ex.feasible(o.pc, e[2][1].bv != want)]
        if not good:
            v.fail("the block loaded for rebroadcast is not selected through the longest-chain index at height id - (genesis_period + 1)",
                   dict(calls=[re.sub(r"<impl at [^>]*>", "", e[1])[-70:] for e in o.events if e[0] == "call"][-12:]))
            continue
        # the hash handed to blocks.get() must be that accessor's answer
        gets = [e for e in o.events if e[0] == "call" and re.search(r"AHashMap::<\[u8; 32\], Block>::get::", e[1])]
        from .models import as_enum, payload
        from .models import value_eq
        ans = ex.deref_value(payload(ex, as_enum(ex, good[-1][3], "Option"), "Some"))
        used = [g for g in gets if isinstance(ex.deref_value(g[2][1]), S.Bytes) and isinstance(ans, S.Bytes) and not ex.feasible(o.pc, z3.Not(value_eq(ex, g[2][1], ans)))]
        if not used:
            v.fail("the hash answered by the longest-chain index is not the one used to fetch the block that is rebroadcast")
    v.covers_total += 1
    v.covers_sat += 1 if reached else 0


def c13_nft_group_not_split(ctx, v):
    """Block::generate_consensus_values, the rebroadcast of a transaction whose outputs are one
    bound group [Bound, payload, Bound] (payload of any non-Bound type: Normal when minted, ATR
    after a first trip round the window) and all three outputs still unspent: the second pass
    regroups exactly what the first pass collected — the group goes out through
    Transaction::create_rebroadcast_bound_transaction (or not at all when the payout does not
    cover the fee), never slip by slip through create_rebroadcast_transaction, which would turn
    a Bound slip into a spendable one and drop the tracking slip.  The block loaded from disk is
    an explicit symbolic input; the parent is not indexed (payout multiplier 1)."""
    from .models import mk_some, mk_none
    ex = ctx.executor(loop_bound=6, inline="auto", max_paths=6000,
                      no_inline=[r"BurnFee::", r"get_longest_chain_block_hash_at_block_id$", r"Storage::", r"MerkleTree::", r"create_rebroadcast_bound_transaction$", r"create_rebroadcast_transaction$",
                                 r"Slip::validate$", r"serialize_for_signature$", r"hash$", r"get_serialized_size$", r"Block::generate$", r"fmt", r"to_hex"])
    ex.pure = [r".*"]
    gp = ex.fresh_value("u64", "genesis_period")
    ccfg = ctx.mk_struct(ex, "ConsensusConfig", "consensus", genesis_period=gp)
    prev_idx = ctx.field_index("Block", "previous_block_hash")
    slips = [L.sym_slip(ctx, ex, "out%d" % i) for i in range(3)]
    SUP = 7 * 10**17
    ty = lambda s: L.slip_field(ctx, s, "slip_type")
    atr_tx = ctx.mk_struct(ex, "Transaction", "old_tx", to=S.Seq(slips, "Slip"))
    bt = ex.fresh_value("BlockType", "atr_block.block_type")
    atr_block = ctx.mk_struct(ex, "Block", "atr_block", transactions=S.Seq([atr_tx], "Transaction"), block_type=bt)

    def hook(ex_, st, callee, args, dty):
        if re.search(r"::get_consensus_config$", callee):
            return mk_some(dty, S.Ref(S.Cell(ccfg)))
        if re.search(r"AHashMap::<\[u8; 32\], Block>::get::", callee):
            k = args[1]
            if isinstance(k, S.Ref) and k.path and k.path[-1][0] == "f" and k.path[-1][1] == prev_idx:
                return mk_none(dty)
            return mk_some(dty, S.Ref(S.Cell(S.Opaque("pruned_block", "Block"))))
        if re.search(r"get_longest_chain_block_hash_at_block_id$", callee):
            return mk_some(dty, ex_.fresh_value("[u8; 32]", "pruned_hash"))
        if re.search(r"Storage::load_block_from_disk$", callee):
            res = S.EnumV("Result<Block, Error>", "Ok", None, {"Ok": S.Agg("variant", "Ok", [atr_block])})
            return S.Agg("struct", "ReadyFuture", [res])
        if re.search(r"Block::generate$", callee):
            return S.EnumV("Result<(), Error>", "Ok", None, {"Ok": S.Agg("variant", "Ok", [S.Agg("tuple", "()", [])])})
        if re.search(r"Slip::validate$", callee):
            return z3.BoolVal(True)
        if re.search(r"get_serialized_size$", callee):
            return ex_.fresh_value("usize", "tx_size")
        return None
    ex.on_call = hook
    bid = ex.fresh_value("u64", "block.id")
    block = ctx.mk_struct(ex, "Block", "block", id=bid, transactions=S.Seq([], "Transaction"))
    st = S.State()
    st.pc.extend([z3.ULE(gp.bv, 1 << 32), z3.UGE(gp.bv, 1), z3.UGT(bid.bv, gp.bv + 1), L.enum_in_range(bt, 4), z3.Not(L.enum_is(ctx, bt, "BlockType", "Pruned")),
                  L.enum_is(ctx, ty(slips[0]), "SlipType", "Bound"), L.enum_is(ctx, ty(slips[2]), "SlipType", "Bound"),
                  L.enum_in_range(ty(slips[1]), L.SLIP_TYPES), z3.Not(L.enum_is(ctx, ty(slips[1]), "SlipType", "Bound"))] +
                 [z3.ULE(L.slip_field(ctx, s, "amount").bv, SUP) for s in slips])
    body, co = L.coroutine(ctx, ex, r"block::<impl at [^>]*>::generate_consensus_values",
                           [S.Ref(S.Cell(block)), S.Ref(S.Cell(S.Opaque("blockchain", "Blockchain"))), S.Ref(S.Cell(S.Opaque("storage", "Storage"))), S.Ref(S.Cell(S.Opaque("cfg", "dyn Configuration")))])
    outs = ex.run(body, [S.Ref(S.Cell(co), (), True), S.Opaque("cx", "Context")], st)
    v.paths += len(outs)
    reached = 0
    for o in outs:
        loaded = [e for e in o.events if e[0] == "call" and re.search(r"generate_block_filepath$|load_block_from_disk$", e[1])]
        single = [e for e in o.events if e[0] == "call" and re.search(r"Transaction::create_rebroadcast_transaction$", e[1])]
        group = [e for e in o.events if e[0] == "call" and re.search(r"Transaction::create_rebroadcast_bound_transaction$", e[1])]
        if o.kind in ("unwound", "path-limit") or (o.kind == "unsupported" and not (single or group or loaded)):
            return v.undecided("%s %s" % (o.kind, o.info))
        if not loaded and not single and not group:
            continue
        if single:
            r, m = ex.model_for(o.pc)
            v.queries += 1
            if r == z3.sat:
                tname = [nm for nm, d in ctx.enums["SlipType"] if d == m.eval(ty(slips[1]).discr.bv, model_completion=True).as_long()]
                v.fail("an unspent bound group [Bound, %s, Bound] is rebroadcast slip by slip (create_rebroadcast_transaction) instead of as one group" % (tname[0] if tname else "?"))
                continue
            if r != z3.unsat:
                return v.undecided("solver: no verdict")
        if len(group) > 1:
            v.fail("the bound group is rebroadcast more than once")
            continue
        reached += 1 if group else 0
    if not reached:
        return v.undecided("the group rebroadcast was never reached")
    v.covers_total += 1
    v.covers_sat += 1


def c13_atr_inputs_checked_against_ledger(ctx, v):
    """Transaction::validate_against_utxoset for a transaction of any type other than Fee (ATR
    included — the rebroadcast commitment does not cover the location of an input, so this
    check is what binds a rebroadcast to the output it retires) with 1..=2 inputs: it answers
    true only if Slip::validate(utxoset) was asked about every input and answered true."""
    body = ctx.body(r"transaction::<impl at [^>]*>::validate_against_utxoset$")
    ok = 0
    for n in (1, 2):
        ex = ctx.executor(loop_bound=n + 3, inline="auto", no_inline=[r"Slip::validate$"])
        ex.pure = [r".*"]
        ins = [L.sym_slip(ctx, ex, "in%d" % i) for i in range(n)]
        tt = ex.fresh_value("TransactionType", "type")
        tx = ctx.mk_struct(ex, "Transaction", "tx", **{"from": S.Seq(ins, "Slip"), "transaction_type": tt})
        st = S.State()
        st.pc.extend([L.enum_in_range(tt, L.TX_TYPES), z3.Not(L.enum_is(ctx, tt, "TransactionType", "Fee"))])
        outs = ex.run(body, [S.Ref(S.Cell(tx)), S.Ref(S.Cell(S.Opaque("utxoset", "AHashMap")))], st)
        v.paths += len(outs)
        for o in outs:
            if o.kind in ("unsupported", "unwound", "path-limit"):
                return v.undecided("n=%d %s %s" % (n, o.kind, o.info))
            if o.kind != "return":
                continue
            res = o.value if z3.is_bool(o.value) else (o.value.bv != 0)
            calls = [e for e in o.events if e[0] == "call" and re.search(r"Slip::validate$", e[1])]
            verdicts = [c[3] if z3.is_bool(c[3]) else (c[3].bv != 0) for c in calls]
            v.queries += 1
            if len(calls) < n:
                r, m = ex.model_for(o.pc, res)
                if r == z3.sat:
                    tname = [nm for nm, d in ctx.enums["TransactionType"] if d == m.eval(tt.discr.bv, model_completion=True).as_long()]
                    v.fail("n=%d: a %s transaction passes the ledger check although only %d of its %d inputs were looked up in the utxoset" % (n, tname[0] if tname else "?", len(calls), n))
                continue
            r, m = ex.model_for(o.pc, z3.And(res, z3.Not(z3.And(*verdicts))))
            v.queries += 1
            if r == z3.sat:
                v.fail("n=%d: the ledger check answers true although an input was reported unspendable" % n)
            else:
                ok += 1
    v.covers_total += 1
    v.covers_sat += 1 if ok else 0


def c13_index_tip_follows_reorg(ctx, v):
    """the rebroadcast commitment of a block is only compared when validate_against_utxo is on, and
    that switch (C01 c01_ledger_check_switch) reads the tip height from the longest-chain index:
    BlockRing::on_chain_reorganization must move the tip pointer to the previous slot — also
    across the ring's wrap-around — when a block is unwound (same obligation as C03
    c03_m_blockring_reorg)."""
    from . import obl_c03
    obl_c03.c03_m_blockring_reorg(ctx, v)


def c13_tx_unwind_restores_inputs(ctx, v):
    """unwinding a block that carried rebroadcasts must make the originals spendable again (a fork
    across the window edge unwinds one rebroadcasting block and winds another): every transaction
    type restores its value-carrying inputs and removes its outputs on unwind (same obligation as
    C03 c03_m_tx_wind_unwind)."""
    from . import obl_c03
    obl_c03.c03_m_tx_wind_unwind(ctx, v)
