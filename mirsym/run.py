"""Engine M runner: (re)generates the MIR dump of /repo/saito-core, loads it, runs obligations.

Each obligation is a function `name(ctx, tier) -> Verdict` in mirsym/obl_<pid>.py.
"""
import glob, hashlib, importlib, json, os, re, subprocess, sys, time, traceback
import z3

from . import mir as MIR, sym as SYM, models as MODELS, rustdefs

VERIF = "/verif"
# development aid only (tools/mtest.py against a scratch worktree while /repo is busy); the registered commands never set it
REPO = os.environ.get("MIRSYM_DEV_REPO", "/repo")
CACHE = os.path.join(VERIF, ".cache", "mir" if REPO == "/repo" else "mir-dev-" + hashlib.sha256(REPO.encode()).hexdigest()[:8])
DUMP = os.path.join(CACHE, "saito_core.mir")


def source_hash():
    h = hashlib.sha256()
    files = sorted(glob.glob(REPO + "/saito-core/src/**/*.rs", recursive=True)) + [REPO + "/saito-core/Cargo.toml", REPO + "/Cargo.lock"]
    for f in files:
        h.update(f.encode())
        h.update(open(f, "rb").read())
    return h.hexdigest()


def ensure_dump(log=None):
    """MIR of the *current* /repo source, hooks guard OFF (the code users run)."""
    os.makedirs(CACHE, exist_ok=True)
    want = source_hash()
    stamp = os.path.join(CACHE, "dump.sha")
    if os.path.exists(DUMP) and os.path.exists(stamp) and open(stamp).read() == want:
        return 0.0
    t = time.time()
    tdir = os.path.join(CACHE, "target")
    for fp in glob.glob(os.path.join(tdir, "debug", ".fingerprint", "saito-core-*")):
        subprocess.run(["rm", "-rf", fp])
    env = dict(os.environ)
    env["CARGO_TARGET_DIR"] = tdir
    env["CARGO_NET_OFFLINE"] = "true"
    env.pop("RUSTFLAGS", None)
    p = subprocess.run(["cargo", "+nightly", "rustc", "--offline", "--lib", "--", "-Zunpretty=mir", "-C", "debug-assertions=off", "-C", "overflow-checks=on"],
                       cwd=REPO + "/saito-core", env=env, stdout=subprocess.PIPE, stderr=subprocess.PIPE, text=True)
    if p.returncode != 0 or len(p.stdout) < 100000:
        if log:
            log.write("MIR dump failed:\n" + p.stderr[-4000:])
        raise RuntimeError("MIR dump failed (does /repo/saito-core compile?)\n" + p.stderr[-2000:])
    open(DUMP, "w").write(p.stdout)
    open(stamp, "w").write(want)
    return time.time() - t


class Verdict:
    def __init__(self):
        self.status = "undecided"
        self.queries = 0
        self.unsat = 0
        self.sat = 0
        self.paths = 0
        self.covers_total = 0
        self.covers_sat = 0
        self.failed = []
        self.why = ""
        self.witness = None
        self.replay_rust = None  # (test name, source) for a native replay
        self.notes = []

    def fail(self, what, witness=None):
        self.status = "fail"
        self.failed.append(what)
        if witness is not None and self.witness is None:
            self.witness = witness

    def undecided(self, why):
        if self.status != "fail":
            self.status = "undecided"
            self.why = why


class Ctx:
    def __init__(self, tier):
        self.tier = tier
        self.bodies, self.consts = MIR.parse_mir(DUMP)
        self.structs, self.enums = rustdefs.parse_defs(REPO + "/saito-core/src")
        self.src_lines = {}

    def body(self, pattern, nargs=None):
        c = [b for n, bl in self.bodies.items() for b in bl if re.search(pattern, n) and (nargs is None or len(b.args) == nargs)]
        if len(c) != 1:
            raise SYM.Unsupported("body %r: %d candidates (%s)" % (pattern, len(c), [b.name for b in c][:4]))
        return c[0]

    def executor(self, **kw):
        kw.setdefault("models", MODELS.MODELS)
        ex = SYM.Executor(self.bodies, self.consts, self.enums, **kw)
        ex.type_modules = dict(rustdefs.TYPE_MODULES)
        return ex

    def field_index(self, struct, field):
        for i, (f, t) in enumerate(self.structs[struct]):
            if f == field:
                return i
        raise KeyError(struct + "." + field)

    def field_type(self, struct, field):
        return dict(self.structs[struct])[field]

    def mk_struct(self, ex, struct, name, **fields):
        """struct value with the given fields, every other field fresh & typed from the source definition"""
        vals = []
        for f, t in self.structs[struct]:
            if f in fields:
                vals.append(fields[f])
            else:
                vals.append(ex.fresh_value(self.norm_type(t), "%s.%s" % (name, f)))
        return SYM.Agg("struct", struct, vals)

    ALIASES = {"Currency": "u64", "Timestamp": "u64", "BlockId": "u64", "PeerIndex": "u64", "SaitoHash": "[u8; 32]", "BlockHash": "[u8; 32]", "ForkId": "[u8; 32]",
               "SaitoPublicKey": "[u8; 33]", "SaitoSignature": "[u8; 64]", "SaitoPrivateKey": "[u8; 32]", "SaitoUTXOSetKey": "[u8; 59]"}

    def norm_type(self, t):
        t = t.strip()
        return self.ALIASES.get(t, t)

    def get_field(self, ex, v, struct, field):
        v = ex.deref_value(v)
        return ex.step_get(v, ("f", self.field_index(struct, field), self.norm_type(self.field_type(struct, field))))


def known_classes(pid, obligation):
    f = json.load(open(os.path.join(VERIF, "known_findings.json")))
    out = set()
    for k in f.get("findings", []):
        if k["property"] == pid and k["obligation"] == obligation:
            out.update(k.get("classes", []))
    return out


def model_values(m, exprs):
    out = {}
    for k, e in exprs.items():
        try:
            if isinstance(e, SYM.I):
                out[k] = m.eval(e.bv, model_completion=True).as_long()
            elif isinstance(e, SYM.Bytes):
                n = m.eval(e.len.bv, model_completion=True).as_long()
                out[k] = [m.eval(z3.Select(e.arr, z3.BitVecVal(i, 64)), model_completion=True).as_long() for i in range(min(n, 600))]
            elif isinstance(e, z3.ExprRef):
                out[k] = str(m.eval(e, model_completion=True))
            else:
                out[k] = str(e)
        except Exception as ex_:
            out[k] = "?(%s)" % ex_
    return out


def run_obligations(pid, obs, tier, log):
    results = {}
    t0 = time.time()
    try:
        dump_s = ensure_dump(log)
        ctx = Ctx(tier)
    except Exception as e:
        for o in obs:
            results[o["name"]] = dict(status="undecided", why_undecided="MIR dump/parse failed: %s" % str(e)[:300], build_error=True, time_s=0.0)
        return results
    log.write("\n[mirsym] dump regenerated in %.1fs, parsed %d bodies\n" % (dump_s, sum(len(v) for v in ctx.bodies.values())))
    mod = importlib.import_module("mirsym.obl_" + pid.lower())
    for o in obs:
        t = time.time()
        v = Verdict()
        try:
            fn = getattr(mod, o["name"])
            fn(ctx, v)
            if v.status == "undecided" and not v.why and not v.failed:
                v.status = "pass"
        except SYM.Unsupported as e:
            v.undecided("unsupported construct on a relevant path: %s" % str(e)[:300])
        except SYM.SolverUnknown as e:
            v.undecided("the solver gave no verdict on a deciding query: %s" % str(e)[:200])
        except Exception as e:
            v.undecided("engine error: %s" % (traceback.format_exc()[-600:]))
        dt = time.time() - t
        r = dict(status=v.status, time_s=dt, n_checks=v.queries, n_failed=len(v.failed), covers_sat=v.covers_sat, covers_total=v.covers_total,
                 failed_checks=v.failed, why_undecided=v.why, paths=v.paths, notes=v.notes)
        if v.status == "fail":
            rdir = os.path.join(VERIF, "replays", pid)
            os.makedirs(rdir, exist_ok=True)
            rpath = os.path.join(rdir, o["name"] + ".json")
            json.dump(dict(obligation=o["name"], property=pid, failed=v.failed, counterexample=v.witness), open(rpath, "w"), indent=1, default=str)
            r["replay_path"] = rpath
            r["reproduced"] = None
            if v.replay_rust is not None and REPO == "/repo":
                from . import replay as RP
                ok, rp = RP.run_native(pid, o["name"], v.replay_rust, log)
                r["reproduced"] = ok
                r["replay_path"] = rp
        log.write("[mirsym] %s: %s queries=%d paths=%d %.2fs %s %s\n" % (o["name"], v.status, v.queries, v.paths, dt, v.why, v.failed[:2]))
        results[o["name"]] = r
    return results
