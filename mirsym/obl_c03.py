"""C03 — ledger state equals a replay of the longest chain (engine M obligations)."""
import re
import z3
from . import sym as S, lib as L
from .models import value_eq
from . import obl_c04


def c03_reorg_sequence(ctx, v):
    """the composition half: on every successful reorganisation (every size/validity class of
    c04_machine) exactly the old segment is unwound and exactly the new segment is wound, once
    each and in chain order — so the ledger after the call is the replay of the new longest chain."""
    obl_c04.c04_machine(ctx, v, pid="C03", obligation="c03_reorg_sequence")


def _ringitem(ctx, ex, name, k):
    ids = [ex.fresh_value("u64", "%s.id%d" % (name, i)) for i in range(k)]
    hs = [ex.fresh_value("[u8; 32]", "%s.h%d" % (name, i)) for i in range(k)]
    return ctx.mk_struct(ex, "RingItem", name, block_hashes=S.Seq(hs), block_ids=S.Seq(ids)), ids, hs


def c03_m_ringitem_reorg(ctx, v):
    """RingItem::on_chain_reorganization(hash, lc) with 0..=3 entries (symbolic ids / full 32-byte
    hashes): lc=false clears the designation; lc=true designates the FIRST entry carrying the
    hash, or nothing if absent."""
    body = ctx.body(r"ringitem::<impl at [^>]*>::on_chain_reorganization$")
    for k in range(0, 4):
        ex = ctx.executor(loop_bound=k + 2, inline="auto")
        item, ids, hs = _ringitem(ctx, ex, "item", k)
        h = ex.fresh_value("[u8; 32]", "h")
        lc = ex.fresh_value("bool", "lc")
        cell = S.Cell(item)
        outs = ex.run(body, [S.Ref(cell, (), True), h, lc])
        v.paths += len(outs)
        seen = False
        for o in outs:
            if o.kind in ("unsupported", "unwound", "path-limit"):
                return v.undecided("k=%d %s %s" % (k, o.kind, o.info))
            if o.kind == "panic":
                L.report_panic(v, ex, o, "k=%d panic %s" % (k, o.info))
            if o.kind != "return":
                continue
            it = o.state.frames[0].locals["_1"].v.cell.v
            pos = it.fields[ctx.field_index("RingItem", "lc_pos")]
            # expected: None if !lc, else Some(first i with hs[i]==h) / None
            firsts = []
            for i in range(k):
                firsts.append(z3.And(value_eq(ex, hs[i], h), *[z3.Not(value_eq(ex, hs[j], h)) for j in range(i)]))
            from .models import as_enum, enum_is, payload
            e = as_enum(ex, pos, "Option")
            is_some = enum_is(ex, e, "Some")
            exp_some = z3.And(lc, z3.Or(*firsts)) if firsts else z3.BoolVal(False)
            bad = [is_some != exp_some]
            if k:
                idx = payload(ex, e, "Some")
                if isinstance(idx, S.I):
                    bad.append(z3.And(is_some, z3.Or(*[z3.And(firsts[i], idx.bv != i) for i in range(k)])))
            for b in bad:
                r, m = ex.model_for(o.pc, b)
                v.queries += 1
                if r == z3.sat:
                    v.fail("k=%d: designation after on_chain_reorganization differs from the reference" % k, dict(lc=str(m.eval(lc, model_completion=True)), path=L.trace_text(o)))
            seen = True
        v.covers_total += 1
        v.covers_sat += 1 if seen else 0


def _slips(ctx, ex, prefix, n):
    out = []
    for i in range(n):
        s = L.sym_slip(ctx, ex, "%s%d" % (prefix, i))
        out.append(s)
    return out


def c03_m_tx_wind_unwind(ctx, v):
    """Transaction::on_chain_reorganization on a utxoset modelled as a finite map: winding removes
    exactly the value-carrying inputs' keys and inserts exactly the value-carrying outputs' keys
    as spendable; unwinding does the reverse; zero-amount slips never touch the set.
    (keys are the slips' stored utxoset_key fields, 59 symbolic bytes each, pairwise distinct)"""
    body = ctx.body(r"transaction::<impl at [^>]*>::on_chain_reorganization$")
    sizes = [(1, 1), (2, 1), (1, 2), (2, 2)] if ctx.tier == "quick" else [(a, b) for a in range(0, 4) for b in range(0, 4)]
    for nin, nout in sizes:
        for lc_val in (True, False):
            ex = ctx.executor(loop_bound=max(nin, nout) + 2, inline="auto")
            ins, outs_ = _slips(ctx, ex, "in", nin), _slips(ctx, ex, "out", nout)
            tx = ctx.mk_struct(ex, "Transaction", "tx", **{"from": S.Seq(ins, "Slip"), "to": S.Seq(outs_, "Slip")})
            key = lambda s: L.slip_field(ctx, s, "utxoset_key")
            amt = lambda s: L.slip_field(ctx, s, "amount")
            allk = [key(s) for s in ins + outs_]
            zk = ex.fresh_value("[u8; 59]", "unrelated")
            distinct = [z3.Not(value_eq(ex, a, b)) for i, a in enumerate(allk + [zk]) for b in (allk + [zk])[:i]]
            zflag = ex.fresh_value("bool", "zflag")
            # pre-state of a wind: inputs present & spendable, outputs absent.  pre-state of an unwind: the reverse.
            pre_present = ins if lc_val else outs_
            entries = [[amt(s).bv != 0, key(s), z3.BoolVal(True)] for s in pre_present] + [[z3.BoolVal(True), zk, zflag]]
            utxo = S.MapV("utxoset", entries)
            ucell = S.Cell(utxo)
            st = S.State()
            st.pc.extend(distinct)
            res = ex.run(body, [S.Ref(S.Cell(tx)), S.Ref(ucell, (), True), z3.BoolVal(lc_val)], st)
            v.paths += len(res)
            seen = False
            for o in res:
                if o.kind in ("unsupported", "unwound", "path-limit"):
                    return v.undecided("%dx%d %s %s" % (nin, nout, o.kind, o.info))
                if o.kind == "panic":
                    L.report_panic(v, ex, o, "%dx%d panic %s" % (nin, nout, o.info))
                if o.kind != "return":
                    continue
                post = o.state.frames[0].locals["_2"].v.cell.v
                def present(k_):
                    return z3.Or(*[z3.And(p, value_eq(ex, ek, k_)) for p, ek, ev in post.entries]) if post.entries else z3.BoolVal(False)
                def spendable(k_):
                    return z3.Or(*[z3.And(p, value_eq(ex, ek, k_), ev.v if isinstance(ev.v, z3.BoolRef) else z3.BoolVal(True)) for p, ek, ev in post.entries]) if post.entries else z3.BoolVal(False)
                checks = []
                gone, created = (ins, outs_) if lc_val else (outs_, ins)
                for s in gone:
                    checks.append(("a slip that must leave the set is still present", present(key(s))))
                for s in created:
                    checks.append(("a value-carrying slip that must be spendable afterwards is not", z3.And(amt(s).bv != 0, z3.Not(spendable(key(s))))))
                    checks.append(("a zero-amount slip entered the set", z3.And(amt(s).bv == 0, present(key(s)))))
                checks.append(("an unrelated entry changed", z3.Not(z3.And(present(zk), spendable(zk) == zflag))))
                for what, bad in checks:
                    r, m = ex.model_for(o.pc, bad)
                    v.queries += 1
                    if r == z3.sat:
                        v.fail("%d in / %d out, longest_chain=%s: %s" % (nin, nout, lc_val, what), dict(path=L.trace_text(o)))
                seen = True
            v.covers_total += 1
            v.covers_sat += 1 if seen else 0


def _ring(ctx, ex, ks):
    items, meta = [], []
    for i, k in enumerate(ks):
        it, ids, hs = _ringitem(ctx, ex, "slot%d" % i, k)
        items.append(it)
        meta.append((ids, hs))
    ring = ctx.mk_struct(ex, "BlockRing", "ring", ring=S.Seq(items, "RingItem"), genesis_period=S.const_int(len(ks) // 2, "u64"))
    return ring, meta


def _lc_entry(ctx, ex, item, ids, hs):
    """(is_some, id, hash-eq function) of the entry designated by a RingItem, as z3 terms"""
    from .models import as_enum, enum_is, payload
    pos = item.fields[ctx.field_index("RingItem", "lc_pos")]
    e = as_enum(ex, pos, "Option")
    some = enum_is(ex, e, "Some")
    if e.variant == "None":
        return z3.BoolVal(False), S.const_int(0, "usize")
    idx = payload(ex, e, "Some")
    if not isinstance(idx, S.I):
        idx = S.I(z3.BitVec("idx!%d" % next(ex.fresh_counter), 64))
    return some, idx


def c03_m_blockring_reorg(ctx, v):
    """BlockRing::on_chain_reorganization(id, hash, lc) on a ring of 4 slots (genesis period 2)
    holding 2 / 1 / 1 / 1 entries with symbolic ids and hashes and arbitrary per-slot
    designations and tip pointer:  only the slot of `id` changes its designation; lc=true moves the
    tip pointer to that slot; lc=false with the tip pointer on that slot moves it to the
    previous slot iff that slot designates a block with id-1, else clears it; a tip pointer
    elsewhere is untouched.  No index panic."""
    body = ctx.body(r"blockring::<impl at [^>]*>::on_chain_reorganization$")
    from .models import as_enum, enum_is, payload
    for layout in ([2, 1, 1, 1], [1, 2, 1, 1]):
        ex = ctx.executor(loop_bound=5, inline="auto", max_paths=3000)
        ring, meta = _ring(ctx, ex, layout)
        bid = ex.fresh_value("u64", "block_id")
        h = ex.fresh_value("[u8; 32]", "hash")
        lc = ex.fresh_value("bool", "lc")
        st = S.State()
        # designations (if any) are in range: representation invariant of RingItem
        pre_items = ring.fields[ctx.field_index("BlockRing", "ring")].items
        pre_some, pre_idx = [], []
        for i, it in enumerate(pre_items):
            some, idx = _lc_entry(ctx, ex, it, *meta[i])
            pre_some.append(some)
            pre_idx.append(idx)
            st.pc.append(z3.Implies(some, z3.ULT(idx.bv, layout[i])))
        tip = ring.fields[ctx.field_index("BlockRing", "lc_pos")]
        te = as_enum(ex, tip, "Option")
        tip_some, tip_idx = enum_is(ex, te, "Some"), payload(ex, te, "Some")
        st.pc.append(z3.Implies(tip_some, z3.ULT(tip_idx.bv, 4)))
        st.pc.append(z3.UGE(bid.bv, 1))
        outs = ex.run(body, [S.Ref(S.Cell(ring), (), True), bid, h, lc], st)
        v.paths += len(outs)
        seen = False
        slot = z3.URem(bid.bv, z3.BitVecVal(4, 64))
        for o in outs:
            if o.kind in ("unsupported", "unwound", "path-limit"):
                return v.undecided("%s %s" % (o.kind, o.info))
            if o.kind == "panic":
                r, m = ex.model_for(o.pc)
                v.queries += 1
                v.fail("panic: %s" % o.info, dict(block_id=m.eval(bid.bv, model_completion=True).as_long()))
                continue
            if o.kind != "return":
                continue
            post = o.state.frames[0].locals["_1"].v.cell.v
            post_items = post.fields[ctx.field_index("BlockRing", "ring")].items
            for i in range(4):
                some, idx = _lc_entry(ctx, ex, post_items[i], *meta[i])
                changed = z3.Or(some != pre_some[i], z3.And(some, idx.bv != pre_idx[i].bv))
                r, m = ex.model_for(o.pc, z3.And(slot != i, changed))
                v.queries += 1
                if r == z3.sat:
                    v.fail("slot %d changed its designation although the call was for another height" % i)
                r, m = ex.model_for(o.pc, z3.And(slot == i, z3.Not(lc), some))
                v.queries += 1
                if r == z3.sat:
                    v.fail("lc=false left a designation at the height's slot")
            ptip = post.fields[ctx.field_index("BlockRing", "lc_pos")]
            pe = as_enum(ex, ptip, "Option")
            p_some = enum_is(ex, pe, "Some")
            p_idx = payload(ex, pe, "Some") if pe.variant != "None" else S.const_int(0, "usize")
            if not isinstance(p_idx, S.I):
                p_idx = S.const_int(0, "usize")
            bad = [("lc=true does not move the tip pointer to the slot", z3.And(lc, z3.Or(z3.Not(p_some), p_idx.bv != slot))),
                   ("lc=false moved a tip pointer that was elsewhere", z3.And(z3.Not(lc), z3.Or(z3.Not(tip_some), tip_idx.bv != slot), z3.Or(p_some != tip_some, z3.And(p_some, p_idx.bv != tip_idx.bv))))]
            # roll-back rule
            prev = z3.URem(slot + 3, z3.BitVecVal(4, 64))
            for i in range(4):
                ids_i = meta[i][0]
                desig_id = None
                for j in range(layout[i]):
                    term = z3.And(pre_some[i], pre_idx[i].bv == j, ids_i[j].bv == bid.bv - 1)
                    desig_id = term if desig_id is None else z3.Or(desig_id, term)
                on_slot = z3.And(z3.Not(lc), tip_some, tip_idx.bv == slot, prev == i)
                bad.append(("roll-back: tip pointer should move to the previous slot (it designates id-1)", z3.And(on_slot, desig_id, z3.Or(z3.Not(p_some), p_idx.bv != i))))
                bad.append(("roll-back: tip pointer should become unknown (previous slot does not designate id-1)", z3.And(on_slot, z3.Not(desig_id), p_some)))
            for what, b in bad:
                r, m = ex.model_for(o.pc, b)
                v.queries += 1
                if r == z3.sat:
                    v.fail(what, dict(block_id=m.eval(bid.bv, model_completion=True).as_long(), lc=str(m.eval(lc, model_completion=True))))
            seen = True
        v.covers_total += 1
        v.covers_sat += 1 if seen else 0


def c03_unwind_full_before_revert(ctx, v):
    """every unwind step of the dispatcher reverts the utxoset from the block's FULL form: in
    unwind_chain the block is upgraded (Block::upgrade_block_to_block_type(Full), which reloads
    pruned transactions) before Block::on_chain_reorganization(utxoset, false) runs, and in
    wind_chain the blocks are upgraded (upgrade_blocks_for_wind_chain) before validation and
    before Block::on_chain_reorganization(utxoset, true)."""
    for n_new, n_old in ((2, 1), (3, 2)):
        ex, outs, valid, bound = obl_c04._explore(ctx, v, n_new, n_old)
        seen = 0
        for o in outs:
            if o.kind in ("unsupported", "path-limit"):
                return v.undecided("%s %s" % (o.kind, o.info))
            if not ex.feasible(o.pc):
                continue
            upgraded = False
            steps = 0
            for e in o.events:
                if e[0] != "call":
                    continue
                name = re.sub(r"<impl at [^>]*>", "", e[1])
                if re.search(r"Block::upgrade_block_to_block_type$|Blockchain::upgrade_blocks_for_wind_chain$", name):
                    upgraded = True
                elif re.search(r"(?:^|::)Block::on_chain_reorganization$", name):
                    steps += 1
                    v.queries += 1
                    if not upgraded:
                        v.fail("|new|=%d |old|=%d: a block's transactions are applied to / reverted from the utxoset before the block was upgraded to its full form (a pruned block would revert nothing)" % (n_new, n_old),
                               dict(events=[re.sub(r"<impl at [^>]*>", "", x[1])[-60:] for x in o.events if x[0] == "call"][:30]))
                        break
                    upgraded = False
            seen += 1 if steps else 0
        v.covers_total += 1
        v.covers_sat += 1 if seen else 0


def c03_m_blockring_delete(ctx, v):
    """BlockRing::delete_block(id, hash) (the chain-index half of rejecting a block) on a ring of 4
    slots whose entries satisfy the ring invariant (an entry with id i lives in slot i mod 4; ids
    are arbitrary u64, so also far beyond the ring size): the entry (id, hash) is removed, every
    other entry of every slot stays, and the designation of a surviving entry is unchanged."""
    body = ctx.body(r"blockring::<impl at [^>]*>::delete_block$")
    from .models import as_enum, enum_is, payload
    for layout in ([2, 1, 1, 1], [1, 1, 2, 1]):
        ex = ctx.executor(loop_bound=6, inline="auto", max_paths=3000, no_inline=[r"PrintForLog", r"to_hex"])
        ring, meta = _ring(ctx, ex, layout)
        st = S.State()
        items = ring.fields[ctx.field_index("BlockRing", "ring")].items
        pre_some, pre_idx = [], []
        for i, it in enumerate(items):
            some, idx = _lc_entry(ctx, ex, it, *meta[i])
            pre_some.append(some); pre_idx.append(idx)
            st.pc.append(z3.Implies(some, z3.ULT(idx.bv, layout[i])))
            for bid in meta[i][0]:
                st.pc.append(z3.URem(bid.bv, z3.BitVecVal(4, 64)) == i)   # ring invariant
        big = layout.index(2)
        tid, th = meta[big][0][0], meta[big][1][0]           # delete entry 0 of the two-entry slot
        oid, oh = meta[big][0][1], meta[big][1][1]
        st.pc.append(z3.Or(tid.bv != oid.bv, z3.Not(value_eq(ex, th, oh))))   # the sibling is a different block
        outs = ex.run(body, [S.Ref(S.Cell(ring), (), True), tid, th], st)
        v.paths += len(outs)
        seen = 0
        for o in outs:
            if o.kind in ("unsupported", "unwound", "path-limit"):
                return v.undecided("%s %s" % (o.kind, o.info))
            if o.kind == "panic":
                r, m = ex.model_for(o.pc)
                v.queries += 1
                if r == z3.sat:
                    v.fail("panic: %s" % o.info)
                continue
            if o.kind != "return":
                continue
            post = o.state.frames[0].locals["_1"].v.cell.v
            pitems = post.fields[ctx.field_index("BlockRing", "ring")].items
            slot = pitems[big]
            pids = slot.fields[ctx.field_index("RingItem", "block_ids")].items
            phs = slot.fields[ctx.field_index("RingItem", "block_hashes")].items
            v.queries += 1
            if len(pids) != 1:
                r, m = ex.model_for(o.pc)
                v.fail("the rejected block's (id, hash) is still in the chain index after delete_block (slot holds %d entries)" % len(pids),
                       dict(block_id=m.eval(tid.bv, model_completion=True).as_long(), ring_size=4))
                continue
            r, m = ex.model_for(o.pc, z3.Or(pids[0].bv != oid.bv, z3.Not(value_eq(ex, phs[0], oh))))
            v.queries += 1
            if r == z3.sat:
                v.fail("delete_block removed or altered the sibling entry instead of the requested one")
            for i in range(4):
                if i == big:
                    continue
                n_i = len(pitems[i].fields[ctx.field_index("RingItem", "block_ids")].items)
                if n_i != layout[i]:
                    v.fail("delete_block changed another slot")
            # designation of the survivor
            some, idx = _lc_entry(ctx, ex, slot, None, None)
            was_survivor = z3.And(pre_some[big], pre_idx[big].bv == 1)
            r, m = ex.model_for(o.pc, z3.Or(z3.And(was_survivor, z3.Or(z3.Not(some), idx.bv != 0)), z3.And(z3.Not(was_survivor), some)))
            v.queries += 1
            if r == z3.sat:
                v.fail("after delete_block the slot's longest-chain designation does not follow the surviving entry")
            seen += 1
        v.covers_total += 1
        v.covers_sat += 1 if seen else 0


def c03_m_block_reorg_step(ctx, v):
    """Block::on_chain_reorganization(utxoset, flag) for a block with 0..=2 transactions and an
    arbitrary previous flag: every transaction of the block is applied / reverted with the same
    flag, in block order, and afterwards the block's own in_longest_chain equals the flag — the
    per-block flag that the shared-ancestor search of add_block reads, so it must describe the
    same chain as the by-height index and the ledger after every wind and unwind."""
    body = ctx.body(r"block::<impl at [^>]*>::on_chain_reorganization$")
    ok = 0
    for n in (0, 1, 2):
        ex = ctx.executor(loop_bound=n + 3, inline="auto", no_inline=[r"Transaction::on_chain_reorganization$", r"to_hex", r"fmt"])
        ex.pure = [r".*"]
        flag = z3.Bool("longest_chain")
        before = z3.Bool("in_longest_chain_before")
        txs = S.Seq([ctx.mk_struct(ex, "Transaction", "tx%d" % i) for i in range(n)], "Transaction")
        blk = ctx.mk_struct(ex, "Block", "block", transactions=txs, in_longest_chain=before)
        cell = S.Cell(blk)
        outs = ex.run(body, [S.Ref(cell, (), True), S.Ref(S.Cell(S.Opaque("utxoset", "AHashMap")), (), True), flag], S.State())
        v.paths += len(outs)
        for o in outs:
            if o.kind in ("unsupported", "unwound", "path-limit"):
                return v.undecided("n=%d %s %s" % (n, o.kind, o.info))
            if o.kind == "panic":
                L.report_panic(v, ex, o, "n=%d: Block::on_chain_reorganization panics: %s" % (n, o.info))
                continue
            if o.kind != "return":
                continue
            post = ex.deref_value(o.state.frames[0].locals["_1"].v)
            after = post.fields[ctx.field_index("Block", "in_longest_chain")]
            after = after if z3.is_bool(after) else (after.bv != 0)
            v.queries += 1
            if ex.feasible(o.pc, after != flag):
                v.fail("n=%d: after Block::on_chain_reorganization(.., flag) the block's in_longest_chain differs from flag" % n)
                continue
            calls = [e for e in o.events if e[0] == "call" and re.search(r"Transaction::on_chain_reorganization$", e[1])]
            if len(calls) != n:
                v.fail("n=%d: %d of the block's transactions are applied / reverted" % (n, len(calls)))
                continue
            bad = False
            for c in calls:
                f = c[2][2]
                f = f if z3.is_bool(f) else (f.bv != 0)
                v.queries += 1
                if ex.feasible(o.pc, f != flag):
                    bad = True
            if bad:
                v.fail("n=%d: a transaction is applied / reverted with a flag other than the block's" % n)
                continue
            ok += 1
    v.covers_total += 1
    v.covers_sat += 1 if ok else 0


def c03_m_ringitem_delete(ctx, v):
    """RingItem::delete_block(id, hash) on a slot with 1..=3 entries (thorough 4), pairwise
    different blocks, symbolic ids and full 32-byte hashes, any designation (None or any
    position), deleting the entry at each position: afterwards the slot holds exactly the other
    entries (as (id, hash) pairs, in any order — an implementation may reorder), and the
    designation follows the same BLOCK: if the designated entry survives it is still the one
    designated, wherever it now sits; if it was the deleted one (or there was none) there is
    none."""
    from .models import as_enum, enum_is, payload
    body = ctx.body(r"ringitem::<impl at [^>]*>::delete_block$")
    ok = 0
    for k in ((1, 2, 3) if ctx.tier == "quick" else (1, 2, 3, 4)):
        for j in range(k):
            ex = ctx.executor(loop_bound=k + 3, inline="auto", max_paths=4000)
            item, ids, hs = _ringitem(ctx, ex, "slot", k)
            p_some = z3.Bool("designation_present")
            p_idx = z3.BitVec("designated_position", 64)
            lc = S.EnumV("Option<usize>", None, S.I(z3.If(p_some, z3.BitVecVal(1, 64), z3.BitVecVal(0, 64)), True))
            lc.payload["Some"] = S.Agg("variant", "Some", [S.I(p_idx)])
            item.fields[ctx.field_index("RingItem", "lc_pos")] = lc
            st = S.State()
            st.pc.append(z3.ULT(p_idx, k))
            same_block = lambda a, b: z3.And(ids[a].bv == ids[b].bv, value_eq(ex, hs[a], hs[b]))
            st.pc.extend([z3.Not(same_block(a, b)) for a in range(k) for b in range(a)])
            outs = ex.run(body, [S.Ref(S.Cell(item), (), True), ids[j], hs[j]], st)
            v.paths += len(outs)
            for o in outs:
                if o.kind in ("unsupported", "unwound", "path-limit"):
                    return v.undecided("k=%d j=%d %s %s" % (k, j, o.kind, o.info))
                if o.kind == "panic":
                    L.report_panic(v, ex, o, "k=%d: RingItem::delete_block panics: %s" % (k, o.info))
                    continue
                if o.kind != "return":
                    continue
                post = ex.deref_value(o.state.frames[0].locals["_1"].v)
                pids = post.fields[ctx.field_index("RingItem", "block_ids")]
                phs = post.fields[ctx.field_index("RingItem", "block_hashes")]
                if not (isinstance(pids, S.Seq) and isinstance(phs, S.Seq)):
                    return v.undecided("post-state lists are not concrete-length sequences")
                if len(pids.items) != k - 1 or len(phs.items) != k - 1:
                    v.queries += 1
                    if ex.feasible(o.pc):
                        L.fail_structural(v, o, "k=%d: after deleting one of %d different blocks the slot holds %d ids / %d hashes" % (k, k, len(pids.items), len(phs.items)))
                    continue
                at = lambda q, i: z3.And(pids.items[q].bv == ids[i].bv, value_eq(ex, phs.items[q], hs[i]))
                bad = False
                for i in range(k):
                    if i == j:
                        continue
                    v.queries += 1
                    if ex.feasible(o.pc, z3.Not(z3.Or(*[at(q, i) for q in range(k - 1)]))):
                        L.fail_structural(v, o, "k=%d: deleting entry %d lost or altered entry %d" % (k, j, i))
                        bad = True
                e = as_enum(ex, post.fields[ctx.field_index("RingItem", "lc_pos")], "Option")
                is_some = enum_is(ex, e, "Some")
                survives = z3.And(p_some, p_idx != j)
                v.queries += 1
                if ex.feasible(o.pc, is_some != survives):
                    L.fail_structural(v, o, "k=%d: deleting entry %d: the slot's designation is %s although the designated block %s" % (k, j, "kept/created", "was deleted or absent") if ex.feasible(o.pc, z3.And(is_some, z3.Not(survives)))
                           else "k=%d: deleting entry %d clears the designation of a surviving block" % (k, j))
                    bad = True
                elif k > 1:
                    idx = payload(ex, e, "Some")
                    if isinstance(idx, S.I):
                        wrong = z3.And(survives, z3.Not(z3.Or(*[z3.And(idx.bv == q, z3.Or(*[z3.And(p_idx == i, at(q, i)) for i in range(k) if i != j])) for q in range(k - 1)])))
                        v.queries += 1
                        if ex.feasible(o.pc, wrong):
                            L.fail_structural(v, o, "k=%d: deleting entry %d moves the longest-chain designation to a different block" % (k, j))
                            bad = True
                if bad and v.replay_rust is None:
                    rr, mm = ex.model_for(o.pc)
                    if rr == z3.sat:
                        v.replay_rust = _replay_ringitem_delete(mm, ids, hs, p_some, p_idx, j)
                ok += 0 if bad else 1
    v.covers_total += 1
    v.covers_sat += 1 if ok else 0


def _replay_ringitem_delete(m, ids, hs, p_some, p_idx, j):
    ev = lambda x: m.eval(x, model_completion=True)
    byts = lambda h: "[" + ", ".join(str(ev(z3.Select(h.arr, z3.BitVecVal(i, 64))).as_long()) for i in range(32)) + "]"
    adds = "\n".join("    item.add_block(%d, %s);" % (ev(ids[i].bv).as_long(), byts(hs[i])) for i in range(len(ids)))
    lc = "Some(%d)" % ev(p_idx).as_long() if z3.is_true(ev(p_some)) else "None"
    src = """
#[test]
fn replay_c03_ringitem_delete() {
    use saito_core::core::consensus::ringitem::RingItem;
    let mut item = RingItem::default();
%s
    item.lc_pos = %s;
    let before: Vec<(u64, [u8; 32])> = item.block_ids.iter().cloned().zip(item.block_hashes.iter().cloned()).collect();
    let designated = item.lc_pos.map(|p| before[p]);
    let victim = before[%d];
    item.delete_block(victim.0, victim.1);
    let after: Vec<(u64, [u8; 32])> = item.block_ids.iter().cloned().zip(item.block_hashes.iter().cloned()).collect();
    assert_eq!(after.len(), before.len() - 1, "exactly one entry removed");
    for e in before.iter().filter(|e| **e != victim) { assert!(after.contains(e), "a surviving entry disappeared"); }
    match designated {
        Some(d) if d != victim => assert_eq!(item.lc_pos.map(|p| after[p]), Some(d), "the designation moved to a different block"),
        _ => assert_eq!(item.lc_pos, None, "a designation exists although the designated block was deleted / there was none"),
    }
}
""" % (adds, lc, j)
    return ("replay_c03_ringitem_delete", src)


def c03_orphan_disturbs_nothing(ctx, v):
    """tip, chain index and on-chain flags must keep describing the chain whose effects the
    spendable set holds: a block that arrives before its parent must not take a longest-chain block
    out of the index while nothing is unwound (same obligation as C05 c05_orphan_disturbs_nothing;
    the below-the-tip class is the same listed known finding)."""
    from . import obl_c05
    obl_c05.c05_orphan_disturbs_nothing(ctx, v, pid="C03", obligation="c03_orphan_disturbs_nothing")
