"""C19 — wallet accounting (engine M): each wallet operation re-establishes
   Inv(w):  available_balance == sum of amounts of the slips listed in unspent_slips,
            unspent_slips and staking_slips are disjoint subsets of keys(slips)."""
import itertools, re
import z3
from . import sym as S, lib as L
from .models import value_eq, as_map

U, STK, NEITHER = "U", "S", "-"


def _wallet(ctx, ex, layout):
    """wallet holding len(layout) slips; layout[i] in {U, S, -}: listed as unspent / staking / neither"""
    n = len(layout)
    keys = [ex.fresh_value("[u8; 59]", "key%d" % i) for i in range(n)]
    amts = [ex.fresh_value("u64", "amount%d" % i) for i in range(n)]
    bids = [ex.fresh_value("u64", "block_id%d" % i) for i in range(n)]
    slips = []
    for i in range(n):
        stype = S.EnumV("SlipType", "BlockStake" if layout[i] == STK else ("Bound" if layout[i] == NEITHER else "Normal"), None, {})
        slips.append(ctx.mk_struct(ex, "WalletSlip", "ws%d" % i, utxokey=keys[i], amount=amts[i], block_id=bids[i], slip_type=stype, spent=z3.BoolVal(False)))
    smap = S.MapV("slips", [[z3.BoolVal(True), keys[i], slips[i]] for i in range(n)])
    unspent = S.MapV("unspent_slips", [[z3.BoolVal(True), keys[i], S.UNIT] for i in range(n) if layout[i] == U])
    staking = S.MapV("staking_slips", [[z3.BoolVal(True), keys[i], S.UNIT] for i in range(n) if layout[i] == STK])
    total = sum([z3.ZeroExt(64, amts[i].bv) for i in range(n) if layout[i] == U], z3.BitVecVal(0, 128))
    bal = ex.fresh_value("u64", "available_balance")
    w = ctx.mk_struct(ex, "Wallet", "wallet", slips=smap, unspent_slips=unspent, staking_slips=staking, available_balance=bal)
    pre = [z3.Not(value_eq(ex, keys[i], keys[j])) for i in range(n) for j in range(i)]
    pre.append(z3.ZeroExt(64, bal.bv) == total)            # Inv: balance == sum(unspent), no wrap
    pre.append(z3.ULE(total, z3.BitVecVal(7 * 10**17, 128)))  # total supply bound
    allsum = sum([z3.ZeroExt(64, a.bv) for a in amts], z3.BitVecVal(0, 128))
    pre.append(z3.ULE(allsum, z3.BitVecVal(7 * 10**17, 128)))  # all slips together (staking included) are within the supply
    for k in keys:  # wallet keys are well-formed utxo keys: the slip-type byte names one of the 10 slip types
        pre.append(z3.ULE(z3.Select(k.arr, z3.BitVecVal(58, 64)), 9))
    return w, keys, amts, bids, pre


def _inv_violations(ctx, ex, post, extra_slips=()):
    """[(description, z3 condition that is SAT iff violated)] for the post-state wallet"""
    fi = lambda f: ctx.field_index("Wallet", f)
    smap, unspent, staking = post.fields[fi("slips")], post.fields[fi("unspent_slips")], post.fields[fi("staking_slips")]
    bal = post.fields[fi("available_balance")]
    out = []
    total = z3.BitVecVal(0, 128)
    for p, k, _ in unspent.entries:
        # amount of the wallet slip stored under k
        amt = z3.BitVecVal(0, 128)
        found = z3.BoolVal(False)
        for p2, k2, vcell in smap.entries:
            hit = z3.And(p2, value_eq(ex, k2, k))
            a = vcell.v.fields[ctx.field_index("WalletSlip", "amount")]
            amt = z3.If(hit, z3.ZeroExt(64, a.bv), amt)
            found = z3.Or(found, hit)
        out.append(("an output listed as unspent is not among the wallet's slips", z3.And(p, z3.Not(found))))
        total = total + z3.If(p, amt, z3.BitVecVal(0, 128))
        for p3, k3, _ in staking.entries:
            out.append(("an output is listed both as unspent and as staking", z3.And(p, p3, value_eq(ex, k, k3))))
    out.append(("available_balance differs from the sum of the outputs listed as unspent", z3.ZeroExt(64, bal.bv) != total))
    return out


def _check(ctx, v, ex, label, outs, wallet_local="_1", extra=None):
    seen = 0
    for o in outs:
        if o.kind in ("unsupported", "unwound", "path-limit"):
            v.undecided("%s: %s %s" % (label, o.kind, o.info))
            return False
        if o.kind == "panic":
            r, m = ex.model_for(o.pc)
            v.queries += 1
            if r == z3.sat:
                v.fail("%s: panic reachable from a state satisfying the invariant: %s" % (label, o.info), dict(path=L.trace_text(o, 10)))
            continue
        if o.kind != "return":
            continue
        post = ex.deref_value(o.state.frames[0].locals[wallet_local].v)
        for what, bad in _inv_violations(ctx, ex, post):
            r, m = ex.model_for(o.pc, bad)
            v.queries += 1
            if r == z3.unknown:
                v.undecided("%s: solver gave no verdict on '%s'" % (label, what))
                return False
            if r == z3.sat:
                v.fail("%s: %s" % (label, what), dict(path=L.trace_text(o, 12), balance_after=m.eval(post.fields[ctx.field_index("Wallet", "available_balance")].bv, model_completion=True).as_long()))
        if extra:
            extra(o)
        seen += 1
    v.covers_total += 1
    v.covers_sat += 1 if seen else 0
    return True


def _layouts(n):
    return ["".join(t) for t in itertools.product(U + STK, repeat=n)]


def c19_add_delete_slip(ctx, v):
    """Wallet::add_slip / Wallet::delete_slip from any wallet satisfying Inv with 0..=2 slips
    (every unspent/staking layout; keys, amounts symbolic; the slip added/deleted symbolic and
    possibly already present)."""
    add = ctx.body(r"wallet::<impl at [^>]*>::add_slip$")
    dele = ctx.body(r"wallet::<impl at [^>]*>::delete_slip$")
    for n in (0, 1, 2):
        for layout in _layouts(n):
            ex = ctx.executor(loop_bound=n + 3, inline="auto")
            L.install_slip_key_model(ctx, ex)
            w, keys, amts, bids, pre = _wallet(ctx, ex, layout)
            slip = L.sym_slip(ctx, ex, "slip")
            st = S.State()
            st.pc.extend(pre + [L.enum_in_range(L.slip_field(ctx, slip, "slip_type"), L.SLIP_TYPES), z3.ULE(L.slip_field(ctx, slip, "amount").bv, 7 * 10**17)])
            bid = ex.fresh_value("u64", "block_id")
            st.pc.append(bid.bv != 0)
            none_net = S.EnumV("Option", "None", None, {"None": S.Agg("variant", "None", [])})
            outs = ex.run(add, [S.Ref(S.Cell(w), (), True), bid, ex.fresh_value("u64", "tx_index"), S.Ref(S.Cell(slip)), ex.fresh_value("bool", "lc"), none_net], st)
            v.paths += len(outs)
            if not _check(ctx, v, ex, "add_slip layout=%s" % (layout or "empty"), outs):
                return
            # delete_slip: the slip's stored utxoset_key is what is looked up
            ex2 = ctx.executor(loop_bound=n + 3, inline="auto")
            w2, keys2, amts2, bids2, pre2 = _wallet(ctx, ex2, layout)
            slip2 = L.sym_slip(ctx, ex2, "slip")
            st2 = S.State()
            st2.pc.extend(pre2)
            outs2 = ex2.run(dele, [S.Ref(S.Cell(w2), (), True), S.Ref(S.Cell(slip2)), S.EnumV("Option", "None", None, {"None": S.Agg("variant", "None", [])})], st2)
            v.paths += len(outs2)
            if not _check(ctx, v, ex2, "delete_slip layout=%s" % (layout or "empty"), outs2):
                return


def c19_find_slips_for_staking(ctx, v):
    """Wallet::find_slips_for_staking (reached through create_staking_transaction and
    Mempool::bundle_block) from any wallet satisfying Inv with 1..=3 slips in every
    unspent/staking layout: Inv holds afterwards on Ok and on Err.
    Unspent slips are given in descending amount order (the function sorts them that way)."""
    body = ctx.body(r"wallet::<impl at [^>]*>::find_slips_for_staking$")
    for n in ((1, 2) if ctx.tier == "quick" else (1, 2, 3)):
        for layout in _layouts(n):
            ex = ctx.executor(loop_bound=n + 3, inline="auto")
            # wallet keys are well-formed utxo keys, so re-parsing one (WalletSlip::to_slip) succeeds;
            # the parsed slip's content is irrelevant to the invariant and left free
            def parse_ok(ex_, st, callee, args, dty):
                if re.search(r"Slip::parse_slip_from_utxokey$", callee):
                    from .models import mk_ok
                    return mk_ok(dty, L.sym_slip(ctx, ex_, "parsed!%d" % next(ex_.fresh_counter)))
                return None
            ex.on_call = parse_ok
            w, keys, amts, bids, pre = _wallet(ctx, ex, layout)
            us = [i for i in range(n) if layout[i] == U]
            for a, b in zip(us, us[1:]):
                pre.append(z3.UGE(amts[a].bv, amts[b].bv))
            st = S.State()
            st.pc.extend(pre)
            amount = ex.fresh_value("u64", "staking_amount")
            st.pc.append(z3.ULE(amount.bv, 7 * 10**17))
            outs = ex.run(body, [S.Ref(S.Cell(w), (), True), amount, ex.fresh_value("u64", "latest_unlocked_block_id"), ex.fresh_value("u64", "last_valid_slips_in_block_id")], st)
            v.paths += len(outs)
            if not _check(ctx, v, ex, "find_slips_for_staking layout=%s" % layout, outs):
                return


def c19_generate_slips(ctx, v):
    """Wallet::generate_slips(requested, ..) from any wallet satisfying Inv with 1..=3 unspent
    slips: Inv holds afterwards; the returned inputs are pairwise distinct wallet slips that
    were unspent; sum(inputs) - change == min(requested, sum(inputs)) in u128."""
    body = ctx.body(r"wallet::<impl at [^>]*>::generate_slips$")
    for n in ((1, 2) if ctx.tier == "quick" else (1, 2, 3)):
        layout = U * n
        ex = ctx.executor(loop_bound=n + 3, inline="auto")
        w, keys, amts, bids, pre = _wallet(ctx, ex, layout)
        st = S.State()
        st.pc.extend(pre)
        req = ex.fresh_value("u64", "nolan_requested")
        gp = ex.fresh_value("u64", "genesis_period")
        st.pc.append(z3.UGE(gp.bv, 1))
        none_net = S.EnumV("Option", "None", None, {"None": S.Agg("variant", "None", [])})
        latest = ex.fresh_value("u64", "latest_block_id")
        outs = ex.run(body, [S.Ref(S.Cell(w), (), True), req, none_net, latest, gp], st)
        v.paths += len(outs)
        # funds outside the expiry margin: created after latest - (genesis_period - 1) (saturating)
        margin = z3.If(z3.UGE(latest.bv, gp.bv - 1), latest.bv - (gp.bv - 1), z3.BitVecVal(0, 64))
        usable = sum([z3.If(z3.UGT(b.bv, margin), z3.ZeroExt(64, a.bv), z3.BitVecVal(0, 128)) for a, b in zip(amts, bids)], z3.BitVecVal(0, 128))

        def extra(o, ex=ex, amts=amts, req=req, usable=usable):
            ret0 = o.value
            tin0 = sum([z3.ZeroExt(64, L.slip_field(ctx, s, "amount").bv) for s in ret0.fields[0].items], z3.BitVecVal(0, 128))
            r0, m0 = ex.model_for(o.pc, z3.And(z3.UGE(usable, z3.ZeroExt(64, req.bv)), z3.ULT(tin0, z3.ZeroExt(64, req.bv))))
            v.queries += 1
            if r0 == z3.sat:
                v.fail("generate_slips n=%d: the wallet holds enough unspent funds outside the expiry margin, yet the inputs gathered do not cover the requested amount (the transaction built from them spends more than it consumes)" % len(amts),
                       dict(requested=m0.eval(req.bv, model_completion=True).as_long(), inputs_total=m0.eval(tin0, model_completion=True).as_long()))
            ret = o.value
            ins, outs_ = ret.fields[0], ret.fields[1]
            tin = sum([z3.ZeroExt(64, L.slip_field(ctx, s, "amount").bv) for s in ins.items], z3.BitVecVal(0, 128))
            tout = sum([z3.ZeroExt(64, L.slip_field(ctx, s, "amount").bv) for s in outs_.items], z3.BitVecVal(0, 128))
            r128 = z3.ZeroExt(64, req.bv)
            bad = z3.Or(z3.UGT(tout, tin), z3.And(z3.UGE(tin, r128), tin - tout != r128), z3.And(z3.ULT(tin, r128), tout != 0))
            r, m = ex.model_for(o.pc, bad)
            v.queries += 1
            if r == z3.sat:
                v.fail("generate_slips n=%d: inputs/change do not add up to the requested amount" % len(amts), dict(path=L.trace_text(o, 10)))
        if not _check(ctx, v, ex, "generate_slips n=%d" % n, outs, extra=extra):
            return


def c19_remove_old_slips(ctx, v):
    """Wallet::remove_old_slips(bound) (window expiry; called with block.id - genesis_period when a
    block is wound) from any wallet satisfying Inv with 1..=2 slips: afterwards Inv holds, exactly
    the slips created in blocks strictly older than the bound are gone, and every slip created at
    the bound or later (still inside the window) is kept."""
    body = ctx.body(r"wallet::<impl at [^>]*>::remove_old_slips$")
    for n in (1, 2):
        for layout in _layouts(n):
            ex = ctx.executor(loop_bound=n + 3, inline="auto")
            w, keys, amts, bids, pre = _wallet(ctx, ex, layout)

            def parse(ex_, st, callee, args, dty, keys=keys):
                # re-parsing a wallet key gives a slip whose stored utxoset_key is that key
                if re.search(r"Slip::parse_slip_from_utxokey$", callee):
                    from .models import mk_ok
                    k = ex_.deref_value(args[0])
                    return mk_ok(dty, L.sym_slip(ctx, ex_, "parsed!%d" % next(ex_.fresh_counter), utxoset_key=S.Bytes(k.len, k.arr)))
                return None
            ex.on_call = parse
            st = S.State()
            st.pc.extend(pre)
            bound = ex.fresh_value("u64", "bound")
            outs = ex.run(body, [S.Ref(S.Cell(w), (), True), bound], st)
            v.paths += len(outs)

            def extra(o, ex=ex, keys=keys, bids=bids, bound=bound, n=n):
                post = ex.deref_value(o.state.frames[0].locals["_1"].v)
                smap = post.fields[ctx.field_index("Wallet", "slips")]
                for i in range(n):
                    kept = z3.Or(*[z3.And(p, value_eq(ex, k, keys[i])) for p, k, _ in smap.entries]) if smap.entries else z3.BoolVal(False)
                    old = z3.ULT(bids[i].bv, bound.bv)
                    for what, bad in (("a slip created at or after the bound (still inside the window) was dropped from the wallet", z3.And(z3.Not(old), z3.Not(kept))),
                                      ("a slip older than the bound was kept", z3.And(old, kept))):
                        r, m = ex.model_for(o.pc, bad)
                        v.queries += 1
                        if r == z3.sat:
                            v.fail("remove_old_slips layout=%s: %s" % (layout, what), dict(slip_block_id=m.eval(bids[i].bv, model_completion=True).as_long(), bound=m.eval(bound.bv, model_completion=True).as_long()))
            if not _check(ctx, v, ex, "remove_old_slips layout=%s" % layout, outs, extra=extra):
                return


def c19_reorg_records_ledger_location(ctx, v):
    """Wallet::on_chain_reorganization(block, lc = true) for a block of two transactions — the
    first of any type (a lite block's SPV placeholder standing for txs_replacements merged
    transactions included), the second paying the wallet: the payment is recorded (add_slip)
    under the block's id and under the transaction ordinal the LEDGER gives it — placeholders
    count for txs_replacements positions, every other transaction for one (the numbering of
    Block::generate) — because generate_slips later rebuilds the input's ledger key from exactly
    these numbers."""
    body = ctx.body(r"wallet::<impl at [^>]*>::on_chain_reorganization$")
    ex = ctx.executor(loop_bound=6, inline="auto", max_paths=4000, no_inline=[r"Wallet::add_slip$", r"Wallet::delete_slip$", r"Wallet::remove_old_slips$", r"is_nft$", r"delete_pending_transaction$", r"fmt", r"to_hex"])
    ex.pure = [r".*"]
    wkey = ex.fresh_value("[u8; 33]", "wallet.public_key")
    wallet = ctx.mk_struct(ex, "Wallet", "wallet", public_key=wkey)
    t0 = ex.fresh_value("TransactionType", "tx0.type")
    reps = ex.fresh_value("u32", "tx0.txs_replacements")
    tx0 = ctx.mk_struct(ex, "Transaction", "tx0", **{"from": S.Seq([], "Slip"), "to": S.Seq([], "Slip"), "transaction_type": t0, "txs_replacements": reps})
    out = L.sym_slip(ctx, ex, "payment")
    t1 = ex.fresh_value("TransactionType", "tx1.type")
    tx1 = ctx.mk_struct(ex, "Transaction", "tx1", **{"from": S.Seq([], "Slip"), "to": S.Seq([out], "Slip"), "transaction_type": t1, "txs_replacements": S.const_int(1, "u32")})
    bid = ex.fresh_value("u64", "block.id")
    block = ctx.mk_struct(ex, "Block", "block", id=bid, transactions=S.Seq([tx0, tx1], "Transaction"))

    def hook(ex_, st, callee, args, dty):
        if re.search(r"is_nft$", callee):
            return z3.BoolVal(False)
        return None
    ex.on_call = hook
    st = S.State()
    st.pc.extend([L.enum_in_range(t0, L.TX_TYPES), L.enum_in_range(t1, L.TX_TYPES), z3.Not(L.enum_is(ctx, t1, "TransactionType", "SPV")),
                  value_eq(ex, L.slip_field(ctx, out, "public_key"), wkey), z3.UGT(L.slip_field(ctx, out, "amount").bv, 0)])
    outs = ex.run(body, [S.Ref(S.Cell(wallet), (), True), S.Ref(S.Cell(block)), z3.BoolVal(True), ex.fresh_value("u64", "genesis_period")], st)
    v.paths += len(outs)
    want = z3.If(L.enum_is(ctx, t0, "TransactionType", "SPV"), z3.ZeroExt(32, reps.bv), z3.BitVecVal(1, 64))
    n = 0
    for o in outs:
        if o.kind in ("unsupported", "unwound", "path-limit"):
            return v.undecided("%s %s" % (o.kind, o.info))
        if o.kind == "panic":
            L.report_panic(v, ex, o, "Wallet::on_chain_reorganization panics: %s" % o.info)
            continue
        if o.kind != "return":
            continue
        adds = [e for e in o.events if e[0] == "call" and re.search(r"Wallet::add_slip$", e[1])]
        v.queries += 1
        if len(adds) != 1:
            if ex.feasible(o.pc):
                L.fail_structural(v, o, "a payment to the wallet in a wound block is recorded %d times" % len(adds))
            continue
        a = adds[0][2]
        got_block, got_ord = a[1], a[2]
        r, m = ex.model_for(o.pc, z3.Or(got_block.bv != bid.bv, got_ord.bv != want))
        v.queries += 1
        if r == z3.sat:
            ev = lambda x: m.eval(x, model_completion=True).as_long()
            L.fail_structural(v, o, "the wallet records a received output under location %d-%d although the ledger holds it at %d-%d (first transaction of the block: %s with txs_replacements %d)" % (
                ev(got_block.bv), ev(got_ord.bv), ev(bid.bv), ev(want), "an SPV placeholder" if z3.is_true(m.eval(L.enum_is(ctx, t0, "TransactionType", "SPV"), model_completion=True)) else "an ordinary transaction", ev(reps.bv)))
        elif r == z3.unsat:
            n += 1
        else:
            return v.undecided("solver: no verdict")
    v.covers_total += 1
    v.covers_sat += 1 if n else 0


def c19_refused_transfer_leaves_wallet(ctx, v):
    """Transaction::create_with_multiple_payments (what Transaction::create goes through) with one
    payment of any amount, any fee, any wallet balance: every path that refuses the transfer
    (returns Err) does so BEFORE Wallet::generate_slips — the call that marks slips spent, takes
    them out of the unspent list and lowers the balance — so a refused transfer leaves the wallet
    as it was; and a path that does call generate_slips asks for exactly payment + fee (fee
    dropped to 0 when it exceeds the balance)."""
    from .models import as_enum, enum_is
    body = ctx.body(r"transaction::<impl at [^>]*>::create_with_multiple_payments$")
    ex = ctx.executor(loop_bound=4, inline="auto", max_paths=3000, no_inline=[r"Wallet::generate_slips$", r"fmt", r"to_hex"])
    ex.pure = [r".*"]
    bal = ex.fresh_value("u64", "available_balance")
    wallet = ctx.mk_struct(ex, "Wallet", "wallet", available_balance=bal)
    pay = ex.fresh_value("u64", "payment")
    fee = ex.fresh_value("u64", "fee")
    SUP = 7 * 10**17

    def hook(ex_, st, callee, args, dty):
        if re.search(r"Wallet::generate_slips$", callee):
            st.events.append(("call", callee, ex_.snap_args(args), None))
            return S.Agg("tuple", "(Vec<Slip>, Vec<Slip>)", [S.Seq([], "Slip"), S.Seq([], "Slip")])
        return None
    ex.on_call = hook
    st = S.State()
    st.pc.extend([z3.ULE(bal.bv, SUP), z3.ULE(pay.bv, SUP), z3.ULE(fee.bv, SUP)])
    none_net = S.EnumV("Option", "None", None, {"None": S.Agg("variant", "None", [])})
    outs = ex.run(body, [S.Ref(S.Cell(wallet), (), True), S.Seq([ex.fresh_value("[u8; 33]", "recipient")], "[u8; 33]"), S.Seq([pay], "u64"), fee, none_net,
                         ex.fresh_value("u64", "latest_block_id"), ex.fresh_value("u64", "genesis_period")], st)
    v.paths += len(outs)
    n = 0
    for o in outs:
        if o.kind in ("unsupported", "unwound", "path-limit"):
            return v.undecided("%s %s" % (o.kind, o.info))
        if o.kind == "panic":
            L.report_panic(v, ex, o, "create_with_multiple_payments panics: %s" % o.info)
            continue
        if o.kind != "return":
            continue
        res = as_enum(ex, o.value, "Result")
        gs = [e for e in o.events if e[0] == "call" and re.search(r"Wallet::generate_slips$", e[1])]
        v.queries += 1
        if gs and ex.feasible(o.pc, enum_is(ex, res, "Err")):
            L.fail_structural(v, o, "a transfer is refused (Err) after Wallet::generate_slips has already committed the wallet's slips to it: the wallet no longer matches the ledger and nothing un-commits them")
            continue
        if gs:
            asked = gs[0][2][1]
            eff_fee = z3.If(z3.UGT(fee.bv, bal.bv), z3.BitVecVal(0, 64), fee.bv)
            v.queries += 1
            if ex.feasible(o.pc, asked.bv != pay.bv + eff_fee):
                L.fail_structural(v, o, "generate_slips is asked for an amount other than payment + fee")
                continue
        n += 1
    v.covers_total += 1
    v.covers_sat += 1 if n else 0
