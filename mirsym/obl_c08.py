"""C08 — routing work (engine M)."""
import z3
from . import sym as S
from .run import model_values


def _hop(ex, i):
    return S.Agg("struct", "Hop", [ex.fresh_value("[u8; 33]", "hop%d.from" % i), ex.fresh_value("[u8; 33]", "hop%d.to" % i), ex.fresh_value("[u8; 64]", "hop%d.sig" % i)])


def _bytes_eq(a, b, n):
    return z3.And(*[z3.Select(a.arr, z3.BitVecVal(i, 64)) == z3.Select(b.arr, z3.BitVecVal(i, 64)) for i in range(n)])


def c08_total_work(ctx, v, kmax=None):
    """Transaction::generate_total_work for a path of K hops (K concrete 0..=kmax, keys and fee
    symbolic):  work > 0  =>  last hop's `to` is the creator and hops are contiguous;
    contiguous and ending at the creator => work = fee halved (rounding up) once per extra hop;
    work <= fee always; no arithmetic panic."""
    kmax = kmax or (5 if ctx.tier == "quick" else 8)
    body = ctx.body(r"transaction::<impl at [^>]*>::generate_total_work$")
    fi = lambda f: ctx.field_index("Transaction", f)
    import os
    for K in range(int(os.environ.get("C08_KMIN", "0")), kmax + 1):
        ex = ctx.executor(loop_bound=K + 2)
        hops = [_hop(ex, i) for i in range(K)]
        fees = ex.fresh_value("u64", "total_fees")
        tx = S.Opaque("tx", "Transaction")
        tx.children[("f", fi("path"))] = S.Seq(hops)
        tx.children[("f", fi("total_fees"))] = fees
        creator = ex.fresh_value("[u8; 33]", "creator")
        outs = ex.run(body, [S.Ref(S.Cell(tx), (), True), S.Ref(S.Cell(creator), ())])
        v.paths += len(outs)
        # reference: ceil-halving per extra hop
        ref = fees.bv
        for _ in range(1, K):
            nxt = ref - z3.LShR(ref, z3.BitVecVal(1, 64))
            # the reference never grows: one halving step at a time (a chain of <= gives reference <= fee)
            x = z3.BitVec("halving_step_input", 64)
            r0, _m = ex.model_for([], z3.UGT(x - z3.LShR(x, z3.BitVecVal(1, 64)), x))
            v.queries += 1
            if r0 != z3.unsat:
                return v.undecided("reference model: a halving step is not shown non-increasing (%s)" % r0)
            ref = nxt
        contiguous = z3.And(*[_bytes_eq(hops[i].fields[0], hops[i - 1].fields[1], 33) for i in range(1, K)]) if K > 1 else z3.BoolVal(True)
        ends_at_creator = _bytes_eq(hops[K - 1].fields[1], creator, 33) if K > 0 else z3.BoolVal(False)
        good = z3.And(contiguous, ends_at_creator)
        for o in outs:
            if o.kind in ("unsupported", "unwound", "path-limit"):
                v.undecided("%s on K=%d: %s" % (o.kind, K, o.info))
                return
            if o.kind == "panic":
                v.queries += 1
                r, m = ex.model_for(o.pc)
                if r == z3.sat:
                    v.fail("K=%d: panic reachable: %s" % (K, o.info), model_values(m, dict(total_fees=fees)))
                elif r != z3.unsat:
                    v.undecided("K=%d: solver gave no verdict on the feasibility of a panic path (%s)" % (K, o.info))
                    return
                continue
            if o.kind != "return":
                continue
            txv = o.state.frames[0].locals["_1"].v.cell.v
            w = txv.children.get(("f", fi("total_work_for_me")))
            if w is None:
                v.fail("K=%d: total_work_for_me not written on a returning path" % K)
                continue
            expected = z3.If(good, ref, z3.BitVecVal(0, 64))
            # case split on `good` (two simpler queries; syntactically identical sides simplify to false without bit-blasting)
            for what, bad in (("work != reference", z3.And(good, z3.simplify(w.bv != ref))), ("work != 0 on a broken path", z3.And(z3.Not(good), w.bv != 0)),
                              ("work > fee", z3.And(z3.simplify(w.bv != ref), z3.UGT(w.bv, fees.bv)))):
                if z3.is_false(z3.simplify(bad)):
                    v.queries += 1
                    v.unsat += 1
                    continue
                r, m = ex.model_for(o.pc, bad)
                v.queries += 1
                if r == z3.sat:
                    v.sat += 1
                    wit = model_values(m, dict(total_fees=fees, work=w, creator=creator, **{"hop%d_from" % i: hops[i].fields[0] for i in range(K)}, **{"hop%d_to" % i: hops[i].fields[1] for i in range(K)}))
                    wit["K"] = K
                    wit["expected_work"] = m.eval(expected, model_completion=True).as_long()
                    v.fail("K=%d hops: %s" % (K, what), wit)
                    v.replay_rust = _replay_total_work(wit)
                elif r == z3.unsat:
                    v.unsat += 1
                else:
                    v.undecided("solver unknown: K=%d %s" % (K, what))
            # reachability witness: a good path with non-zero work exists
            if K >= 1:
                r, m = ex.model_for(o.pc, z3.And(good, w.bv != 0))
                v.queries += 1
                if r == z3.sat:
                    v.notes.append("K=%d good path reachable" % K)
        v.covers_total += 1 if K >= 1 else 0
        if K >= 1 and any("K=%d good" % K in n for n in v.notes):
            v.covers_sat += 1


def _replay_total_work(w):
    K = w["K"]
    def arr(xs):
        return "[" + ",".join(str(x) for x in xs) + "]"
    hops = "\n".join("    tx.path.push(Hop { from: %s, to: %s, sig: [0u8; 64] });" % (arr(w["hop%d_from" % i]), arr(w["hop%d_to" % i])) for i in range(K))
    src = """
#[test]
fn replay_c08_total_work() {
    use saito_core::core::consensus::transaction::Transaction;
    use saito_core::core::consensus::hop::Hop;
    let mut tx = Transaction::default();
%s
    tx.total_fees = %du64;
    let creator: [u8; 33] = %s;
    tx.generate_total_work(&creator);
    // reference value computed by the solver-side oracle (fee halved, rounding up, per extra hop)
    assert_eq!(tx.total_work_for_me, %du64, "routing work differs from the reference for a %d-hop path");
}
""" % (hops, w["total_fees"], arr(w["creator"]), w["expected_work"], K)
    return ("replay_c08_total_work", src)


# ---------------------------------------------------------------- gates inside Block::validate
import re
from . import lib as L, bv_explore as BV


def _sel(ctx, v):
    got = BV.full_node_true_paths(ctx, v)
    if got is None:
        return None
    r, sel = got
    ex = r["ex"]
    out = []
    for o, cond in sel:
        bt = BV.block_field(ctx, r, o, "block_type")
        if isinstance(bt, S.EnumV):
            cond = z3.And(cond, z3.Not(L.enum_is(ctx, bt, "BlockType", "Ghost")))
        pg = BV.prev_block_is_ghost(ctx, r, o)
        if pg is not None:
            cond = z3.And(cond, z3.Not(pg))
        if ex.feasible(o.pc, cond):
            out.append((o, cond))
    return r, out


def c08_block_work_gate(ctx, v):
    """Block::validate returns true for a block whose parent is known (non-ghost)  =>  the routing
    work requirement was computed by BurnFee::return_routing_work_needed_to_produce_block_in_nolan
    (parent burn fee, self.timestamp, parent timestamp, heartbeat) and self.total_work >= it."""
    got = _sel(ctx, v)
    if got is None:
        return
    r, sel = got
    ex = r["ex"]
    n = 0
    for o, cond in sel:
        gets = [e for e in o.events if e[0] == "call" and re.search(r"AHashMap::<\[u8; 32\], Block>::get::", e[1])]
        from .models import as_enum, enum_is
        parent_known = None
        if gets:
            parent_known = enum_is(ex, as_enum(ex, gets[0][3], "Option"), "Some")
        bf = [e for e in o.events if e[0] == "call" and re.search(r"BurnFee::return_routing_work_needed_to_produce_block_in_nolan$", e[1])]
        v.queries += 1
        if not bf:
            if parent_known is not None and ex.feasible(o.pc, z3.And(cond, parent_known)):
                v.fail("Block::validate can return true for a block with a known parent without computing the routing work requirement", dict(path=L.trace_text(o, 20)))
            continue
        needed = bf[0][3]
        work = BV.block_field(ctx, r, o, "total_work")
        ts = BV.block_field(ctx, r, o, "timestamp")
        rr, m = ex.model_for(o.pc, z3.And(cond, z3.ULT(work.bv, needed.bv)))
        if rr == z3.sat:
            v.fail("Block::validate returns true although total_work < the routing work required", dict(total_work=m.eval(work.bv, model_completion=True).as_long(), needed=m.eval(needed.bv, model_completion=True).as_long()))
            continue
        a = bf[0][2]
        if not (isinstance(a[1], S.I) and z3.eq(z3.simplify(a[1].bv), z3.simplify(ts.bv))):
            v.fail("the work requirement is not computed from this block's timestamp")
            continue
        # the burn fee and the reference time must be the PARENT's (the block found under previous_block_hash)
        from .models import payload
        parent = ex.deref_value(payload(ex, as_enum(ex, gets[0][3], "Option"), "Some")) if gets else None
        if parent is None:
            v.fail("work requirement computed without a parent block")
            continue
        p_bf = ex.step_get(parent, ("f", ctx.field_index("Block", "burnfee"), "u64"))
        p_ts = ex.step_get(parent, ("f", ctx.field_index("Block", "timestamp"), "u64"))
        if not (isinstance(a[0], S.I) and z3.eq(z3.simplify(a[0].bv), z3.simplify(p_bf.bv))):
            v.fail("the routing work requirement is not computed from the parent block's burn fee", dict(argument=str(z3.simplify(a[0].bv))[:80] if isinstance(a[0], S.I) else str(a[0])[:80]))
            continue
        if not (isinstance(a[2], S.I) and z3.eq(z3.simplify(a[2].bv), z3.simplify(p_ts.bv))):
            v.fail("the routing work requirement is not computed from the parent block's timestamp")
            continue
        n += 1
    v.covers_total += 1
    v.covers_sat += 1 if n else 0


def c08_block_gt_gate(ctx, v):
    """whenever Block::validate examines a golden ticket (GoldenTicket::validate called) and
    returns true, the ticket validated against the parent's difficulty."""
    got = _sel(ctx, v)
    if got is None:
        return
    r, sel = got
    ex = r["ex"]
    n = 0
    for o, cond in sel:
        g = [e for e in o.events if e[0] == "call" and re.search(r"GoldenTicket::validate$", e[1])]
        if not g:
            continue
        v.queries += 1
        rr, m = ex.model_for(o.pc, z3.And(cond, z3.Not(g[0][3])))
        if rr == z3.sat:
            v.fail("Block::validate returns true although GoldenTicket::validate returned false")
        else:
            n += 1
    v.covers_total += 1
    v.covers_sat += 1 if n else 0


def c08_winning_router_eligible(ctx, v):
    """Transaction::get_winning_routing_node (who receives the router share of a block's fees) for
    K = 0..=3 hops (thorough 5) and 0..=2 inputs, lottery number symbolic: with a routing path the
    payee is the `to` key of one of this transaction's hops (or the zero key when the transaction
    paid no fee); without one it is the sender from[0] (or the zero key when there is no input);
    the function does not panic for fees within the token supply.  The 256-bit remainder is an
    explicit symbolic input w constrained only by its contract w < aggregate routing work."""
    body = ctx.body(r"transaction::<impl at [^>]*>::get_winning_routing_node$")
    fi = lambda f: ctx.field_index("Transaction", f)
    kmax = 3 if ctx.tier == "quick" else 5
    n = 0
    for K in range(0, kmax + 1):
        for nin in (0, 1, 2):
            if K > 0 and nin != 1:
                continue
            ex = ctx.executor(loop_bound=K + 3, inline="auto", no_inline=[r"U256", r"div_mod", r"low_u64"])
            ex.pure = [r".*"]
            w = ex.fresh_value("u64", "lottery_remainder")

            def hook(ex_, st, callee, args, dty, w=w):
                if re.search(r"low_u64$", callee):
                    return ex_.copy_value(w)
                return None
            ex.on_call = hook
            hops = [_hop(ex, i) for i in range(K)]
            ins = [L.sym_slip(ctx, ex, "in%d" % i) for i in range(nin)]
            outs_ = [L.sym_slip(ctx, ex, "out%d" % i) for i in range(2)]
            fees = ex.fresh_value("u64", "total_fees")
            tx = ctx.mk_struct(ex, "Transaction", "tx", **{"from": S.Seq(ins, "Slip"), "to": S.Seq(outs_, "Slip"), "path": S.Seq(hops, "Hop"), "total_fees": fees})
            agg = z3.BitVecVal(0, 64)
            for i in range(K):
                agg = agg + z3.LShR(fees.bv, z3.BitVecVal(i, 64))
            st = S.State()
            st.pc.extend([z3.ULE(fees.bv, 7 * 10**17)] + ([z3.Implies(agg != 0, z3.ULT(w.bv, agg))] if K else []))
            outs = ex.run(body, [S.Ref(S.Cell(tx)), ex.fresh_value("[u8; 32]", "random_hash")], st)
            v.paths += len(outs)
            zero = lambda b: z3.And(*[z3.Select(b.arr, z3.BitVecVal(i, 64)) == 0 for i in range(33)])
            for o in outs:
                if o.kind in ("unsupported", "unwound", "path-limit"):
                    return v.undecided("K=%d: %s %s" % (K, o.kind, o.info))
                if o.kind == "panic":
                    L.report_panic(v, ex, o, "K=%d hops, %d inputs: get_winning_routing_node panics: %s" % (K, nin, o.info))
                    continue
                if o.kind != "return":
                    continue
                res = o.value
                if not isinstance(res, S.Bytes):
                    return v.undecided("K=%d: unexpected result value %r" % (K, res))
                if K == 0:
                    eligible = _bytes_eq(res, L.slip_field(ctx, ins[0], "public_key"), 33) if nin else zero(res)
                    what = "the sender (from[0])" if nin else "the zero key"
                else:
                    eligible = z3.Or(zero(res), *[_bytes_eq(res, h.fields[1], 33) for h in hops])
                    what = "a router on this transaction's path"
                r, m = ex.model_for(o.pc, z3.Not(eligible))
                v.queries += 1
                if r == z3.sat:
                    v.fail("K=%d hops, %d inputs: the routing payout goes to a key that is not %s" % (K, nin, what))
                elif r == z3.unsat:
                    n += 1
                else:
                    return v.undecided("K=%d: solver unknown" % K)
    v.covers_total += 1
    v.covers_sat += 1 if n else 0


def c08_requirement_zero_after_two_heartbeats(ctx, v):
    """BurnFee::return_routing_work_needed_to_produce_block_in_nolan for every parent burn fee,
    pair of timestamps and heartbeat (2*heartbeat not overflowing): with the block's timestamp
    after the parent's, the requirement is 0 exactly from an elapsed time of two heartbeats on
    (elapsed >= 2*heartbeat  =>  0), and misordered timestamps give the prohibitive constant.
    The floating-point curve below two heartbeats is not modelled (its value is arbitrary here);
    only the integer gates around it are decided."""
    body = ctx.body(r"burnfee::<impl at [^>]*>::return_routing_work_needed_to_produce_block_in_nolan$")
    ex = ctx.executor(loop_bound=3, inline="auto", no_inline=[r"f64", r"round$"])
    ex.pure = [r".*"]
    bf, cur, prev, hb = (ex.fresh_value("u64", n) for n in ("parent_burnfee", "block_timestamp", "parent_timestamp", "heartbeat"))
    st = S.State()
    st.pc.append(z3.ULE(hb.bv, 1 << 62))
    outs = ex.run(body, [bf, cur, prev, hb], st)
    v.paths += len(outs)
    n = 0
    elapsed = cur.bv - prev.bv
    for o in outs:
        if o.kind in ("unsupported", "unwound", "path-limit"):
            return v.undecided("%s %s" % (o.kind, o.info))
        if o.kind == "panic":
            L.report_panic(v, ex, o, "return_routing_work_needed panics: %s" % o.info)
            continue
        if o.kind != "return":
            continue
        res = o.value
        for what, bad in (("the requirement is not zero although two heartbeats or more have elapsed", z3.And(z3.UGT(cur.bv, prev.bv), z3.UGE(elapsed, 2 * hb.bv), res.bv != 0)),
                          ("misordered timestamps do not give the prohibitive requirement", z3.And(z3.UGE(prev.bv, cur.bv), res.bv != 10_000_000_000_000_000_000))):
            r, m = ex.model_for(o.pc, bad)
            v.queries += 1
            if r == z3.sat:
                # prefer a witness with a large parent burn fee: the value of the float curve is not modelled, the native replay decides
                r2, m2 = ex.model_for(o.pc, z3.And(bad, bf.bv == 10**12, z3.ULE(hb.bv, 10**6)))
                m = m2 if r2 == z3.sat else m
                ev = lambda x: m.eval(x, model_completion=True).as_long()
                v.fail("%s (elapsed %d ms, heartbeat %d ms)" % (what, ev(elapsed), ev(hb.bv)), dict(parent_burnfee=ev(bf.bv), block_timestamp=ev(cur.bv), parent_timestamp=ev(prev.bv), heartbeat=ev(hb.bv)))
                if v.replay_rust is None:
                    v.replay_rust = ("replay_c08_two_heartbeats", """
#[test]
fn replay_c08_two_heartbeats() {
    use saito_core::core::consensus::burnfee::BurnFee;
    let (bf, cur, prev, hb): (u64, u64, u64, u64) = (%d, %d, %d, %d);
    let need = BurnFee::return_routing_work_needed_to_produce_block_in_nolan(bf, cur, prev, hb);
    if prev >= cur {
        assert_eq!(need, 10_000_000_000_000_000_000, "misordered timestamps must give the prohibitive requirement");
    } else if cur - prev >= 2 * hb {
        assert_eq!(need, 0, "two heartbeats or more have elapsed: the requirement must be zero");
    }
}
""" % (ev(bf.bv), ev(cur.bv), ev(prev.bv), ev(hb.bv)))
            elif r != z3.unsat:
                return v.undecided("solver: no verdict")
        n += 1
    v.covers_total += 1
    v.covers_sat += 1 if n else 0


def c08_routing_path_valid(ctx, v):
    """Transaction::validate_routing_path for paths of 1..=2 hops (thorough 3), keys and
    signatures symbolic, `verify` a free verdict per hop: it answers true only if, for EVERY hop
    — the first one included — the hop's signature over (transaction signature ‖ hop.to) by
    hop.from was asked about and verified, the hop does not go from a key to itself, and each hop
    starts where the previous one ended.  (Routing work is only counted for paths this function
    accepts; generate_total_work itself does not look at self-hops.)"""
    from .models import value_eq
    body = ctx.body(r"transaction::<impl at [^>]*>::validate_routing_path$")
    kmax = 2 if ctx.tier == "quick" else 3
    ok = 0
    for K in range(1, kmax + 1):
        ex = ctx.executor(loop_bound=K + 3, inline="auto", max_paths=4000, no_inline=[r"(?:^|::)verify$", r"fmt", r"to_hex"])
        ex.pure = [r".*"]

        def hook(ex_, st, callee, args, dty):
            if re.search(r"(?:^|::)verify$", callee):
                verdict = z3.Bool("verify_verdict!%d" % next(ex_.fresh_counter))   # an explicit free input, one per question asked
                # snapshot of what was asked: a loop re-uses the local buffer the message was built in, and a
                # reference kept in the event would later show the NEXT iteration's bytes
                snap = [ex_.copy_value(ex_.deref_value(x)) if isinstance(x, S.Ref) else x for x in args]
                st.events.append(("verify_asked", callee, snap, verdict))
                return verdict
            return None
        ex.on_call = hook
        hops = [_hop(ex, i) for i in range(K)]
        sig = ex.fresh_value("[u8; 64]", "tx.signature")
        tx = ctx.mk_struct(ex, "Transaction", "tx", path=S.Seq(hops, "Hop"), signature=sig)
        outs = ex.run(body, [S.Ref(S.Cell(tx))], S.State())
        v.paths += len(outs)
        for o in outs:
            if o.kind in ("unsupported", "unwound", "path-limit"):
                return v.undecided("K=%d %s %s" % (K, o.kind, o.info))
            if o.kind == "panic":
                L.report_panic(v, ex, o, "K=%d: validate_routing_path panics: %s" % (K, o.info))
                continue
            if o.kind != "return":
                continue
            res = o.value if z3.is_bool(o.value) else (o.value.bv != 0)
            calls = [e for e in o.events if e[0] == "verify_asked"]
            conds = []
            for i, h in enumerate(hops):
                hfrom, hto, hsig = h.fields[0], h.fields[1], h.fields[2]
                verified = []
                for c in calls:
                    a = [ex.deref_value(x) if isinstance(x, S.Ref) else x for x in c[2]]
                    if len(a) == 3 and isinstance(a[1], S.Bytes) and isinstance(a[2], S.Bytes) and isinstance(a[0], S.Bytes):
                        msg = a[0]
                        msg_ok = z3.And(msg.len.bv == 97, *[z3.Select(msg.arr, z3.BitVecVal(k, 64)) == z3.Select(sig.arr, z3.BitVecVal(k, 64)) for k in range(64)],
                                        *[z3.Select(msg.arr, z3.BitVecVal(64 + k, 64)) == z3.Select(hto.arr, z3.BitVecVal(k, 64)) for k in range(33)])
                        verdict = c[3] if z3.is_bool(c[3]) else (c[3].bv != 0)
                        verified.append(z3.And(msg_ok, value_eq(ex, a[1], hsig), value_eq(ex, a[2], hfrom), verdict))
                conds.append(("hop %d: signature not verified" % i, z3.Or(*verified) if verified else z3.BoolVal(False)))
                conds.append(("hop %d goes from a key to itself" % i, z3.Not(_bytes_eq(hfrom, hto, 33))))
                if i:
                    conds.append(("hop %d does not start where hop %d ended" % (i, i - 1), _bytes_eq(hfrom, hops[i - 1].fields[1], 33)))
            bad = False
            for what, c in conds:
                r, m = ex.model_for(o.pc, z3.And(res, z3.Not(c)))
                v.queries += 1
                if r == z3.sat:
                    L.fail_structural(v, o, "K=%d: validate_routing_path accepts a path although %s" % (K, what))
                    bad = True
                elif r != z3.unsat:
                    return v.undecided("solver: no verdict")
            ok += 0 if bad else 1
    v.covers_total += 1
    v.covers_sat += 1 if ok else 0


def c08_block_counts_work_once(ctx, v):
    """Block::generate (run on every block at creation, again on receipt and again inside
    add_block, always on the same object): afterwards block.total_work — the figure the work gate
    of Block::validate compares with the requirement — is exactly the sum of the carried
    transactions' total_work_for_me, whatever total_work held before the call (so running it
    twice does not count the routing work twice). 1..=2 transactions (thorough 3);
    Transaction::generate is replaced by its contract (it writes a fresh total_work_for_me)."""
    body = ctx.body(r"block::<impl at [^>]*>::generate$")
    wi = ctx.field_index("Transaction", "total_work_for_me")
    for n in ((1, 2) if ctx.tier == "quick" else (1, 2, 3)):
        ex = ctx.executor(loop_bound=n + 4, inline="auto", max_paths=8000,
                          no_inline=[r"Transaction::generate$", r"generate_merkle_root$", r"generate_pre_hash$", r"generate_hash$", r"generate_transaction_hashmap$", r"serialize_for_signature$", r"generate_cumulative_fees$"])
        ex.pure = [r".*"]
        works = [ex.fresh_value("u64", "tx%d.work_for_me" % i) for i in range(n)]
        written = []

        def hook(ex_, st, callee, args, dty, works=works, written=written):
            if re.search(r"Transaction::generate$", callee):
                a = args[0]
                if isinstance(a, S.Ref) and a.path and a.path[-1][0] == "i":
                    i = S.as_int(a.path[-1][1])
                    tx = ex_.get_path(a.cell, a.path)
                    tx.fields[wi] = works[i]
                    st.events.append(("call", callee, args, None))
                    return S.UNIT
                raise S.Unsupported("Transaction::generate on a transaction that is not an element of block.transactions")
            return None
        ex.on_call = hook
        txs, types = [], []
        for i in range(n):
            t = ex.fresh_value("TransactionType", "tx%d.type" % i)
            outs = [L.sym_slip(ctx, ex, "tx%d.out%d" % (i, k)) for k in range(1)]
            txs.append(ctx.mk_struct(ex, "Transaction", "tx%d" % i, transaction_type=t, **{"from": S.Seq([], "Slip"), "to": S.Seq(outs, "Slip"), "path": S.Seq([], "Hop")}))
            types.append(t)
        pre_work = ex.fresh_value("u64", "block.total_work.before")
        block = ctx.mk_struct(ex, "Block", "block", transactions=S.Seq(txs, "Transaction"), total_work=pre_work)
        st = S.State()
        st.pc.extend([L.enum_in_range(t, L.TX_TYPES) for t in types])
        for tx in txs:
            for s in tx.fields[ctx.field_index("Transaction", "to")].items:
                st.pc.append(L.enum_in_range(L.slip_field(ctx, s, "slip_type"), L.SLIP_TYPES))
        st.pc.extend([z3.ULE(w.bv, 7 * 10**17) for w in works] + [z3.ULE(pre_work.bv, 7 * 10**17)])
        outs = ex.run(body, [S.Ref(S.Cell(block), (), True)], st)
        v.paths += len(outs)
        seen = 0
        want = sum([w.bv for w in works], z3.BitVecVal(0, 64))
        for o in outs:
            if o.kind in ("unsupported", "unwound", "path-limit"):
                return v.undecided("n=%d %s %s" % (n, o.kind, o.info))
            if o.kind != "return":
                continue
            post = o.state.frames[0].locals["_1"].v.cell.v
            tw = post.fields[ctx.field_index("Block", "total_work")]
            if not isinstance(tw, S.I):
                return v.undecided("n=%d: block.total_work is not an integer value after generate (%s)" % (n, type(tw).__name__))
            r, m = ex.model_for(o.pc, tw.bv != want)
            v.queries += 1
            if r == z3.sat:
                v.sat += 1
                ev = lambda x: m.eval(x, model_completion=True).as_long()
                L.fail_structural(v, o, "block of %d: after generate() the block's total_work differs from the routing work its transactions carry" % n,
                                  dict(total_work_before=ev(pre_work.bv), work_of_transactions=[ev(w.bv) for w in works], total_work_after=ev(tw.bv)), exprs=[tw.bv])
            elif r == z3.unsat:
                v.unsat += 1
            else:
                return v.undecided("n=%d solver %s" % (n, r))
            seen += 1
        v.covers_total += 1
        v.covers_sat += 1 if seen else 0


def c08_tx_validate_path_gate(ctx, v):
    """Transaction::validate for every type whose routing path is turned into work for the block
    creator and into router-payout eligibility and that reaches the user-originated section
    (Normal, GoldenTicket, Vip, Bound), 1 input x 1..=2 outputs: it answers true only if
    validate_routing_path was asked about this transaction and said yes — a path that is not
    cryptographically valid and contiguous delivers no accepted work for any of those types."""
    import re
    from . import obl_c02
    val = ctx.body(r"transaction::<impl at [^>]*>::validate$")
    ok = 0
    for nout in (1, 2):
        ex = ctx.executor(loop_bound=5, inline="auto", max_paths=6000, no_inline=[r"verify_signature$", r"validate_routing_path$", r"fmt", r"to_hex", r"to_base58"])
        ex.pure = [r".*"]
        L.install_slip_key_model(ctx, ex)
        tx, ins, outs_, ttype, pre = obl_c02._tx(ctx, ex, 1, nout)
        user = z3.Or(*[L.enum_is(ctx, ttype, "TransactionType", t) for t in ("Normal", "GoldenTicket", "Vip", "Bound")])
        st = S.State()
        st.pc.extend(pre + [user])
        tcell = S.Cell(tx)
        outs = ex.run(val, [S.Ref(tcell), S.Ref(S.Cell(S.Opaque("utxoset", "AHashMap"))), S.Ref(S.Cell(S.Opaque("blockchain", "Blockchain"))), z3.BoolVal(True)], st)
        v.paths += len(outs)
        for o in outs:
            if o.kind in ("unsupported", "unwound", "path-limit"):
                return v.undecided("%s %s" % (o.kind, o.info))
            if o.kind != "return" or not z3.is_bool(o.value):
                continue
            own = o.state.frames[0].locals["_1"].v
            good = []
            for c in o.events:
                if c[0] == "call" and re.search(r"validate_routing_path$", c[1]):
                    a = c[2][0] if len(c[2]) else None
                    if isinstance(a, S.Ref) and isinstance(own, S.Ref) and a.cell is own.cell and a.path == own.path:
                        good.append(c[3] if z3.is_bool(c[3]) else (c[3].bv != 0))
            routed = z3.Or(*good) if good else z3.BoolVal(False)
            r, m = ex.model_for(o.pc, z3.And(o.value, z3.Not(routed)))
            v.queries += 1
            if r == z3.sat:
                tname = [nm for nm, d in ctx.enums["TransactionType"] if d == m.eval(ttype.discr.bv, model_completion=True).as_long()]
                v.fail("Transaction::validate accepts a %s transaction although its routing path was not validated (its hops still count as work for the creator and as payout candidates)" % (tname[0] if tname else "?"))
            elif r == z3.unsat:
                ok += 1
            else:
                return v.undecided("solver: no verdict")
    v.covers_total += 1
    v.covers_sat += 1 if ok else 0
