"""C17 — the handshake authenticates the peer's key (engine M): one handshake-response step
from an arbitrary Peer state."""
import re
import z3
from . import sym as S, lib as L
from .models import value_eq, as_enum, enum_is, payload


def _opt(ex, name, inner_ty):
    """arbitrary Option<inner>"""
    e = S.EnumV("Option<%s>" % inner_ty, None, S.I(z3.BitVec(name + ".discr", 64), True))
    val = ex.fresh_value(inner_ty, name + ".some")
    e.payload["Some"] = S.Agg("variant", "Some", [val])
    return e, val


def c17_response_step(ctx, v):
    """Peer::handle_handshake_response from an arbitrary Peer (status, challenge, key, static
    config present or not) and an arbitrary response; `verify` is a free predicate V, I/O and the
    version comparison are free:
      A  status becomes Connected / Ok is returned  =>  a challenge was outstanding, V(that
         challenge, response.signature, response.public_key) was asked and true, and the peer's
         key afterwards is response.public_key;
      B  Ok is returned  =>  the challenge is consumed (challenge_for_peer == None afterwards), so
         the same response cannot be accepted twice;
      C  V false or no outstanding challenge  =>  the peer is not newly Connected by this call;
      D  Ok / newly Connected  =>  the responder's core version is set and equals this node's in
         major and minor (this node's wallet version symbolic)."""
    ex = ctx.executor(loop_bound=3, inline="auto", max_paths=4000, no_inline=[r"::serialize$", r"get_my_services$"])
    ch, ch_val = _opt(ex, "challenge_for_peer", "[u8; 32]")
    pk, pk_val = _opt(ex, "peer.public_key", "[u8; 33]")
    spc = S.EnumV("Option<PeerConfig>", None, S.I(z3.BitVec("static_peer_config.discr", 64), True))
    status = ex.fresh_value("PeerStatus", "peer_status")
    peer = ctx.mk_struct(ex, "Peer", "peer", challenge_for_peer=ch, public_key=pk, static_peer_config=spc, peer_status=status)
    r_sig = ex.fresh_value("[u8; 64]", "response.signature")
    r_pk = ex.fresh_value("[u8; 33]", "response.public_key")
    r_ch = ex.fresh_value("[u8; 32]", "response.challenge")
    ver = lambda nm: S.Agg("struct", "Version", [ex.fresh_value("u8", nm + ".major"), ex.fresh_value("u8", nm + ".minor"), ex.fresh_value("u16", nm + ".patch")])
    r_ver, w_ver = ver("response.core_version"), ver("wallet.core_version")
    resp = ctx.mk_struct(ex, "HandshakeResponse", "response", signature=r_sig, public_key=r_pk, challenge=r_ch, core_version=r_ver)
    wallet = ctx.mk_struct(ex, "Wallet", "wallet", core_version=w_ver)
    V = ex.fresh_value("bool", "V")
    verify_calls = []

    def hook(ex_, st, callee, args, dty):
        if re.search(r"(?:^|::)crypto::verify$|^verify$", callee):
            st.events.append(("verify", callee, args, V))
            return V
        if re.search(r"(?:^|::)crypto::sign$|^sign$", callee):
            return ex_.fresh_value("[u8; 64]", "signature!%d" % next(ex_.fresh_counter))
        return None
    ex.on_call = hook
    ex.pure = [r".*"]
    pre = [L.enum_in_range(status, 3)]
    st = S.State()
    st.pc.extend(pre)
    body, co = L.coroutine(ctx, ex, r"peer::<impl at [^>]*>::handle_handshake_response",
                           [S.Ref(S.Cell(peer), (), True), resp, S.Ref(S.Cell(S.Opaque("io", "dyn InterfaceIO"))), S.Ref(S.Cell(wallet)),
                            S.Opaque("configs_lock", "Arc<RwLock<dyn Configuration>>"), ex.fresh_value("u64", "current_time")])
    outs = ex.run(body, [S.Ref(S.Cell(co), (), True), S.Opaque("cx", "Context")], st)
    v.paths += len(outs)
    had_challenge = enum_is(ex, ch, "Some")
    n_ok = 0
    for o in outs:
        if o.kind in ("unsupported", "unwound", "path-limit"):
            return v.undecided("%s %s" % (o.kind, o.info))
        if o.kind == "panic":
            # the only panic in this body is the assert_eq! on a changed public key: a peer input that
            # crashes the handler is C11's subject; here it is a path that does not mark Connected
            continue
        if o.kind != "return":
            continue
        res = L.ready_value(ex, o)
        if not isinstance(res, S.EnumV):
            return v.undecided("result not an enum")
        is_ok = enum_is(ex, res, "Ok")
        cov = o.state.frames[0].locals["_1"].v
        cor = ex.deref_value(cov)
        # find the peer value (upvar 0 or moved into a variant slot)
        cands = [cor.upvars[0]] + [f for p in cor.payload.values() if isinstance(p, S.Agg) for f in p.fields]
        post = None
        for c in cands:
            if isinstance(c, S.Ref):
                pv = ex.deref_value(c)
                if isinstance(pv, S.Agg) and pv.name == "Peer":
                    post = pv
        if post is None:
            return v.undecided("peer value not found in coroutine state")
        fi = lambda f: post.fields[ctx.field_index("Peer", f)]
        pstat = fi("peer_status")
        connected = L.enum_is(ctx, pstat, "PeerStatus", "Connected") if isinstance(pstat, S.EnumV) else None
        was_connected = L.enum_is(ctx, status, "PeerStatus", "Connected")
        vcalls = [e for e in o.events if e[0] == "verify"]
        asked_right = z3.BoolVal(False)
        if vcalls:
            a = vcalls[0][2]
            asked_right = z3.And(value_eq(ex, a[0], ch_val), value_eq(ex, a[1], r_sig), value_eq(ex, a[2], r_pk))
        authenticated = z3.And(had_challenge, z3.BoolVal(bool(vcalls)), asked_right, V)
        pch = as_enum(ex, fi("challenge_for_peer"), "Option")
        ppk = as_enum(ex, fi("public_key"), "Option")
        key_is_responder = z3.And(enum_is(ex, ppk, "Some"), value_eq(ex, payload(ex, ppk, "Some"), r_pk)) if ppk.variant != "None" else z3.BoolVal(False)
        newly = z3.And(connected, z3.Not(was_connected)) if connected is not None else z3.BoolVal(False)
        w_set = z3.Not(z3.And(w_ver.fields[0].bv == 0, w_ver.fields[1].bv == 0, w_ver.fields[2].bv == 0))
        r_set = z3.Not(z3.And(r_ver.fields[0].bv == 0, r_ver.fields[1].bv == 0, r_ver.fields[2].bv == 0))
        compatible = z3.And(w_set, r_set, w_ver.fields[0].bv == r_ver.fields[0].bv, w_ver.fields[1].bv == r_ver.fields[1].bv)
        checks = [
            ("A: the peer is newly marked Connected without a valid signature over the outstanding challenge", z3.And(newly, z3.Not(authenticated))),
            ("A: Ok is returned without a valid signature over the outstanding challenge", z3.And(is_ok, z3.Not(authenticated))),
            ("A: Ok is returned but the peer's key is not the responder's key", z3.And(is_ok, z3.Not(key_is_responder))),
            ("B: Ok is returned but the challenge is still outstanding afterwards (the same response would be accepted again)", z3.And(is_ok, enum_is(ex, pch, "Some"))),
            ("C: a rejected response (bad signature / no challenge) leaves the peer newly Connected", z3.And(z3.Not(authenticated), newly)),
            ("D: Ok is returned / the peer is newly Connected although the responder's core version is unset or differs from this node's in major or minor",
             z3.And(z3.Or(is_ok, newly), z3.Not(compatible))),
        ]
        for what, bad in checks:
            r, m = ex.model_for(o.pc, bad)
            v.queries += 1
            if r == z3.sat:
                v.fail(what, dict(path=L.trace_text(o, 16), had_challenge=str(m.eval(had_challenge, model_completion=True)), V=str(m.eval(V, model_completion=True)),
                                  acceptor=str(m.eval(enum_is(ex, spc, "None"), model_completion=True))))
        r, _ = ex.model_for(o.pc, is_ok)
        if r == z3.sat:
            n_ok += 1
    v.covers_total += 1
    v.covers_sat += 1 if n_ok else 0
