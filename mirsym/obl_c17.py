"""C17 — the handshake authenticates the peer's key (engine M): one handshake-response step
from an arbitrary Peer state."""
import re
import z3
from . import sym as S, lib as L
from .models import value_eq, as_enum, enum_is, payload


def _opt(ex, name, inner_ty):
    """arbitrary Option<inner>"""
    e = S.EnumV("Option<%s>" % inner_ty, None, S.I(z3.BitVec(name + ".discr", 64), True))
    val = ex.fresh_value(inner_ty, name + ".some")
    e.payload["Some"] = S.Agg("variant", "Some", [val])
    return e, val


def c17_response_step(ctx, v):
    """Peer::handle_handshake_response from an arbitrary Peer (status, challenge, key, static
    config present or not) and an arbitrary response; `verify` is a free predicate V, I/O and the
    version comparison are free:
      A  status becomes Connected / Ok is returned  =>  a challenge was outstanding, V(that
         challenge, response.signature, response.public_key) was asked and true, and the peer's
         key afterwards is response.public_key;
      B  Ok is returned  =>  the challenge is consumed (challenge_for_peer == None afterwards), so
         the same response cannot be accepted twice;
      C  V false or no outstanding challenge  =>  the peer is not newly Connected by this call;
      D  Ok / newly Connected  =>  the responder's core version is set and equals this node's in
         major and minor (this node's wallet version symbolic);
      E  Ok / newly Connected  =>  the entry was not already known by a different key (in any
         status — a surviving entry that reconnects is Connecting, not Connected)."""
    ex = ctx.executor(loop_bound=3, inline="auto", max_paths=4000, no_inline=[r"::serialize$", r"get_my_services$"])
    ch, ch_val = _opt(ex, "challenge_for_peer", "[u8; 32]")
    pk, pk_val = _opt(ex, "peer.public_key", "[u8; 33]")
    spc = S.EnumV("Option<PeerConfig>", None, S.I(z3.BitVec("static_peer_config.discr", 64), True))
    status = ex.fresh_value("PeerStatus", "peer_status")
    peer = ctx.mk_struct(ex, "Peer", "peer", challenge_for_peer=ch, public_key=pk, static_peer_config=spc, peer_status=status)
    r_sig = ex.fresh_value("[u8; 64]", "response.signature")
    r_pk = ex.fresh_value("[u8; 33]", "response.public_key")
    r_ch = ex.fresh_value("[u8; 32]", "response.challenge")
    ver = lambda nm: S.Agg("struct", "Version", [ex.fresh_value("u8", nm + ".major"), ex.fresh_value("u8", nm + ".minor"), ex.fresh_value("u16", nm + ".patch")])
    r_ver, w_ver = ver("response.core_version"), ver("wallet.core_version")
    resp = ctx.mk_struct(ex, "HandshakeResponse", "response", signature=r_sig, public_key=r_pk, challenge=r_ch, core_version=r_ver)
    wallet = ctx.mk_struct(ex, "Wallet", "wallet", core_version=w_ver)
    V = ex.fresh_value("bool", "V")
    verify_calls = []

    def hook(ex_, st, callee, args, dty):
        if re.search(r"(?:^|::)crypto::verify$|^verify$", callee):
            # values at the time of the question (the challenge field is cleared later in the same body)
            st.events.append(("verify", callee, [ex_.copy_value(ex_.deref_value(x)) if isinstance(x, S.Ref) else x for x in args], V))
            return V
        if re.search(r"(?:^|::)crypto::sign$|^sign$", callee):
            return ex_.fresh_value("[u8; 64]", "signature!%d" % next(ex_.fresh_counter))
        return None
    ex.on_call = hook
    ex.pure = [r".*"]
    pre = [L.enum_in_range(status, 3)]
    st = S.State()
    st.pc.extend(pre)
    body, co = L.coroutine(ctx, ex, r"peer::<impl at [^>]*>::handle_handshake_response",
                           [S.Ref(S.Cell(peer), (), True), resp, S.Ref(S.Cell(S.Opaque("io", "dyn InterfaceIO"))), S.Ref(S.Cell(wallet)),
                            S.Opaque("configs_lock", "Arc<RwLock<dyn Configuration>>"), ex.fresh_value("u64", "current_time")])
    outs = ex.run(body, [S.Ref(S.Cell(co), (), True), S.Opaque("cx", "Context")], st)
    v.paths += len(outs)
    had_challenge = enum_is(ex, ch, "Some")
    n_ok = 0
    for o in outs:
        if o.kind in ("unsupported", "unwound", "path-limit"):
            return v.undecided("%s %s" % (o.kind, o.info))
        if o.kind == "panic":
            # the only panic in this body is the assert_eq! on a changed public key: a peer input that
            # crashes the handler is C11's subject; here it is a path that does not mark Connected
            continue
        if o.kind != "return":
            continue
        res = L.ready_value(ex, o)
        if not isinstance(res, S.EnumV):
            return v.undecided("result not an enum")
        is_ok = enum_is(ex, res, "Ok")
        cov = o.state.frames[0].locals["_1"].v
        cor = ex.deref_value(cov)
        # find the peer value (upvar 0 or moved into a variant slot)
        cands = [cor.upvars[0]] + [f for p in cor.payload.values() if isinstance(p, S.Agg) for f in p.fields]
        post = None
        for c in cands:
            if isinstance(c, S.Ref):
                pv = ex.deref_value(c)
                if isinstance(pv, S.Agg) and pv.name == "Peer":
                    post = pv
        if post is None:
            return v.undecided("peer value not found in coroutine state")
        fi = lambda f: post.fields[ctx.field_index("Peer", f)]
        pstat = fi("peer_status")
        connected = L.enum_is(ctx, pstat, "PeerStatus", "Connected") if isinstance(pstat, S.EnumV) else None
        was_connected = L.enum_is(ctx, status, "PeerStatus", "Connected")
        vcalls = [e for e in o.events if e[0] == "verify"]
        asked_right = z3.BoolVal(False)
        if vcalls:
            a = vcalls[0][2]
            asked_right = z3.And(value_eq(ex, a[0], ch_val), value_eq(ex, a[1], r_sig), value_eq(ex, a[2], r_pk))
        authenticated = z3.And(had_challenge, z3.BoolVal(bool(vcalls)), asked_right, V)
        pch = as_enum(ex, fi("challenge_for_peer"), "Option")
        ppk = as_enum(ex, fi("public_key"), "Option")
        key_is_responder = z3.And(enum_is(ex, ppk, "Some"), value_eq(ex, payload(ex, ppk, "Some"), r_pk)) if ppk.variant != "None" else z3.BoolVal(False)
        newly = z3.And(connected, z3.Not(was_connected)) if connected is not None else z3.BoolVal(False)
        w_set = z3.Not(z3.And(w_ver.fields[0].bv == 0, w_ver.fields[1].bv == 0, w_ver.fields[2].bv == 0))
        r_set = z3.Not(z3.And(r_ver.fields[0].bv == 0, r_ver.fields[1].bv == 0, r_ver.fields[2].bv == 0))
        compatible = z3.And(w_set, r_set, w_ver.fields[0].bv == r_ver.fields[0].bv, w_ver.fields[1].bv == r_ver.fields[1].bv)
        checks = [
            ("A: the peer is newly marked Connected without a valid signature over the outstanding challenge", z3.And(newly, z3.Not(authenticated))),
            ("A: Ok is returned without a valid signature over the outstanding challenge", z3.And(is_ok, z3.Not(authenticated))),
            ("A: Ok is returned but the peer's key is not the responder's key", z3.And(is_ok, z3.Not(key_is_responder))),
            ("B: Ok is returned but the challenge is still outstanding afterwards (the same response would be accepted again)", z3.And(is_ok, enum_is(ex, pch, "Some"))),
            ("C: a rejected response (bad signature / no challenge) leaves the peer newly Connected", z3.And(z3.Not(authenticated), newly)),
            ("D: Ok is returned / the peer is newly Connected although the responder's core version is unset or differs from this node's in major or minor",
             z3.And(z3.Or(is_ok, newly), z3.Not(compatible))),
            ("E: Ok is returned / the peer is newly Connected although this entry is already known by a DIFFERENT key (the node keeps resolving the old key to this connection, which that key never authenticated)",
             z3.And(z3.Or(is_ok, newly), enum_is(ex, pk, "Some"), z3.Not(value_eq(ex, pk_val, r_pk)))),
        ]
        for what, bad in checks:
            r, m = ex.model_for(o.pc, bad)
            v.queries += 1
            if r == z3.sat:
                v.fail(what, dict(path=L.trace_text(o, 16), had_challenge=str(m.eval(had_challenge, model_completion=True)), V=str(m.eval(V, model_completion=True)),
                                  acceptor=str(m.eval(enum_is(ex, spc, "None"), model_completion=True))))
        r, _ = ex.model_for(o.pc, is_ok)
        if r == z3.sat:
            n_ok += 1
    v.covers_total += 1
    v.covers_sat += 1 if n_ok else 0


def c17_disconnect_step(ctx, v):
    """Peer::mark_as_disconnected from an arbitrary Peer: afterwards no challenge is outstanding
    (challenge_for_peer == None) and the status is Disconnected — the invariant that ties the
    response step to *this* connection: a static peer's entry survives the disconnect and is
    reused by the next connection, so a challenge left behind would let a response made for the
    previous connection be accepted on the new one."""
    ex = ctx.executor(loop_bound=3, inline="auto", no_inline=[r"fmt"])
    ex.pure = [r".*"]
    ch, ch_val = _opt(ex, "challenge_for_peer", "[u8; 32]")
    status = ex.fresh_value("PeerStatus", "peer_status")
    peer = ctx.mk_struct(ex, "Peer", "peer", challenge_for_peer=ch, peer_status=status)
    st = S.State()
    st.pc.append(L.enum_in_range(status, 3))
    body = ctx.body(r"peer::<impl at [^>]*>::mark_as_disconnected$")
    outs = ex.run(body, [S.Ref(S.Cell(peer), (), True), ex.fresh_value("u64", "disconnected_at")], st)
    v.paths += len(outs)
    n = 0
    for o in outs:
        if o.kind in ("unsupported", "unwound", "path-limit"):
            return v.undecided("%s %s" % (o.kind, o.info))
        if o.kind == "panic":
            L.report_panic(v, ex, o, "mark_as_disconnected panics: %s" % o.info)
            continue
        if o.kind != "return":
            continue
        post = ex.deref_value(o.state.frames[0].locals["_1"].v)
        pch = as_enum(ex, post.fields[ctx.field_index("Peer", "challenge_for_peer")], "Option")
        pst = post.fields[ctx.field_index("Peer", "peer_status")]
        v.queries += 2
        if ex.feasible(o.pc, enum_is(ex, pch, "Some")):
            v.fail("a challenge is still outstanding after mark_as_disconnected: a response made for the previous connection can be accepted on the next one")
            continue
        disc = dict(ctx.enums["PeerStatus"])["Disconnected"]
        is_disc = z3.BoolVal(pst.variant == "Disconnected") if pst.variant is not None else (pst.discr.bv == disc)
        if ex.feasible(o.pc, z3.Not(is_disc)):
            v.fail("the peer is not Disconnected after mark_as_disconnected")
            continue
        n += 1
    v.covers_total += 1
    v.covers_sat += 1 if n else 0


def c17_challenge_issue_step(ctx, v):
    """The two places that arm a peer for a handshake response: after Peer::initiate_handshake
    and after Peer::handle_handshake_challenge return Ok, challenge_for_peer is Some(c) where c
    is exactly the 32 bytes this call drew from generate_random_bytes (the randomness source is
    an explicit symbolic input), and that same c is what the message handed to the serializer
    carries; handle_handshake_challenge signs exactly the challenge it received, with the
    wallet's private key.  (Freshness of c across calls is the randomness source's contract.)"""
    n_ok = 0
    for which in ("initiate_handshake", "handle_handshake_challenge"):
        ex = ctx.executor(loop_bound=3, inline="auto", max_paths=2000, no_inline=[r"::serialize$", r"get_my_services$", r"fmt", r"to_hex", r"to_base58"])
        ex.pure = [r".*"]
        rnd = ex.fresh_value("Vec<u8>", "random_bytes")
        sign_calls = []

        def hook(ex_, st, callee, args, dty, rnd=rnd):
            if re.search(r"generate_random_bytes$", callee):
                st.events.append(("rnd", callee, args, None))
                return S.Agg("struct", "ReadyFuture", [ex_.copy_value(rnd)])
            if re.search(r"(?:^|::)crypto::sign$|^sign$", callee):
                sig = ex_.fresh_value("[u8; 64]", "signature!%d" % next(ex_.fresh_counter))
                st.events.append(("sign", callee, [ex_.copy_value(ex_.deref_value(x)) if isinstance(x, S.Ref) else x for x in args], sig))
                return sig
            return None
        ex.on_call = hook
        ch, ch_val = _opt(ex, "challenge_for_peer", "[u8; 32]")
        status = ex.fresh_value("PeerStatus", "peer_status")
        peer = ctx.mk_struct(ex, "Peer", "peer", challenge_for_peer=ch, peer_status=status)
        st = S.State()
        st.pc.extend([L.enum_in_range(status, 3), rnd.len.bv == 32])
        io = S.Ref(S.Cell(S.Opaque("io", "dyn InterfaceIO")))
        if which == "initiate_handshake":
            args = [S.Ref(S.Cell(peer), (), True), io]
            recv = None
        else:
            recv = ex.fresh_value("[u8; 32]", "received.challenge")
            priv = ex.fresh_value("[u8; 32]", "wallet.private_key")
            wallet = ctx.mk_struct(ex, "Wallet", "wallet", private_key=priv)
            args = [S.Ref(S.Cell(peer), (), True), ctx.mk_struct(ex, "HandshakeChallenge", "received", challenge=recv), io, S.Ref(S.Cell(wallet)), S.Opaque("configs_lock", "Arc<RwLock<dyn Configuration>>")]
        body, co = L.coroutine(ctx, ex, r"peer::<impl at [^>]*>::%s" % which, args)
        outs = ex.run(body, [S.Ref(S.Cell(co), (), True), S.Opaque("cx", "Context")], st)
        v.paths += len(outs)
        for o in outs:
            if o.kind in ("unsupported", "unwound", "path-limit"):
                return v.undecided("%s: %s %s" % (which, o.kind, o.info))
            if o.kind != "return":
                continue
            res = as_enum(ex, L.ready_value(ex, o), "Result")
            is_ok = enum_is(ex, res, "Ok")
            if not ex.feasible(o.pc, is_ok):
                continue
            post = ex.deref_value(peer_after(ex, o))
            pch = as_enum(ex, post.fields[ctx.field_index("Peer", "challenge_for_peer")], "Option")
            v.queries += 1
            if ex.feasible(o.pc, z3.And(is_ok, z3.Not(enum_is(ex, pch, "Some")))):
                v.fail("%s returns Ok without an outstanding challenge recorded" % which)
                continue
            if not [e for e in o.events if e[0] == "rnd"]:
                return v.undecided("%s: the randomness source (generate_random_bytes) was not recognised on a path that records a challenge" % which)
            stored = payload(ex, pch, "Some")
            same = z3.And(*[z3.Select(stored.arr, z3.BitVecVal(i, 64)) == z3.Select(rnd.arr, z3.BitVecVal(i, 64)) for i in range(32)])
            v.queries += 1
            if ex.feasible(o.pc, z3.And(is_ok, z3.Not(same))):
                v.fail("%s: the challenge recorded for the peer is not the 32 bytes drawn from the randomness source in this call" % which)
                continue
            # the message handed to the serializer carries the same challenge
            sent = [e for e in o.events if e[0] == "call" and re.search(r"Message::serialize$", e[1])]
            if not sent:
                v.fail("%s returns Ok without serializing a handshake message" % which)
                continue
            msg = ex.deref_value(sent[0][2][0]) if isinstance(sent[0][2][0], S.Ref) else sent[0][2][0]
            carried = _find_bytes32(ex, msg, "challenge", ctx)
            if carried is None:
                return v.undecided("%s: challenge not found in the serialized message value" % which)
            if not isinstance(carried, S.Bytes):
                return v.undecided("%s: carried challenge is %s %s" % (which, type(carried).__name__, getattr(carried, "name", "")))
            same2 = z3.And(*[z3.Select(carried.arr, z3.BitVecVal(i, 64)) == z3.Select(rnd.arr, z3.BitVecVal(i, 64)) for i in range(32)])
            v.queries += 1
            if ex.feasible(o.pc, z3.And(is_ok, z3.Not(same2))):
                v.fail("%s: the challenge sent to the peer differs from the one recorded" % which)
                continue
            if recv is not None:
                sg = [e for e in o.events if e[0] == "sign"]
                if not sg:
                    v.fail("handle_handshake_challenge answers without signing")
                    continue
                m_arg = sg[0][2][0]
                mb = ex.deref_value(m_arg) if isinstance(m_arg, S.Ref) else m_arg
                v.queries += 1
                ok_len = mb.len.bv == 32 if isinstance(mb, S.Bytes) else z3.BoolVal(False)
                same3 = z3.And(ok_len, *[z3.Select(mb.arr, z3.BitVecVal(i, 64)) == z3.Select(recv.arr, z3.BitVecVal(i, 64)) for i in range(32)]) if isinstance(mb, S.Bytes) else z3.BoolVal(False)
                if ex.feasible(o.pc, z3.And(is_ok, z3.Not(same3))):
                    v.fail("handle_handshake_challenge signs something other than the 32-byte challenge it received")
                    continue
                k_arg = sg[0][2][1]
                kb = ex.deref_value(k_arg) if isinstance(k_arg, S.Ref) else k_arg
                v.queries += 1
                if not isinstance(kb, S.Bytes) or ex.feasible(o.pc, z3.And(is_ok, z3.Not(value_eq(ex, kb, priv)))):
                    v.fail("handle_handshake_challenge does not sign with the wallet's private key")
                    continue
            n_ok += 1
    v.covers_total += 1
    v.covers_sat += 1 if n_ok >= 2 else 0


def peer_after(ex, o):
    co = ex.deref_value(o.state.frames[0].locals["_1"].v)
    cands = list(co.upvars or []) + [f for p in co.payload.values() if isinstance(p, S.Agg) for f in p.fields]
    for c in cands:
        if isinstance(c, S.Ref):
            pv = ex.deref_value(c)
            if isinstance(pv, S.Agg) and pv.name == "Peer":
                return c
    raise RuntimeError("peer not found in coroutine state")


def _find_bytes32(ex, val, field, ctx):
    """the `challenge` field of the HandshakeChallenge / HandshakeResponse carried by a Message value"""
    seen = []

    def walk(x):
        if isinstance(x, S.Ref):
            x = ex.deref_value(x)
        if isinstance(x, S.Agg):
            if x.kind == "struct" and x.name in ("HandshakeChallenge", "HandshakeResponse"):
                seen.append(x.fields[ctx.field_index(x.name, field)])
                return
            for f in x.fields:
                walk(f)
        elif isinstance(x, S.EnumV):
            for p in x.payload.values():
                walk(p)
    walk(val)
    return seen[0] if seen else None


def c17_network_gate(ctx, v):
    """Network::handle_handshake_response (the caller of the peer-level step): on every path on
    which Peer::handle_handshake_response answered Err — for a peer in any state, with or
    without a recorded public key — the function returns without treating the peer as
    authenticated: no PeerCollection::remove_reconnected_peer, no insertion into
    address_to_peers, no PeerConnected event, no blockchain request; and it does not panic.
    The inner step's result is an explicit symbolic input."""
    ex = ctx.executor(loop_bound=3, inline="auto", max_paths=3000, no_inline=[r"fmt", r"to_base58", r"to_hex", r"remove_reconnected_peer$", r"find_peer_by_index_mut$", r"join_as_reconnection$", r"request_blockchain_from_peer$", r"has_handshake_limit_exceeded$", r"RateLimiter::"])
    ex.pure = [r".*"]
    # the logging loop over all peers that follows the authentication bookkeeping is cut (it comes after every call checked here)
    ex.stop_calls = [r"<&(?:AHashMap|HashMap|std::collections::HashMap)<u64, Peer[^>]*> as IntoIterator>::into_iter$"]
    pk, pk_val = _opt(ex, "peer.public_key", "[u8; 33]")
    status = ex.fresh_value("PeerStatus", "peer_status")
    peer = ctx.mk_struct(ex, "Peer", "peer", public_key=pk, peer_status=status)
    inner_err = z3.Bool("inner_step_returned_err")
    known_peer = z3.Bool("peer_index_known")
    from .models import mk_some, mk_none

    def hook(ex_, st, callee, args, dty):
        if re.search(r"Peer::handle_handshake_response$", callee):
            res = S.EnumV("Result<(), Error>", None, S.I(z3.If(inner_err, z3.BitVecVal(1, 64), z3.BitVecVal(0, 64)), True))
            res.payload["Err"] = S.Agg("variant", "Err", [S.Opaque("err", "Error")])
            res.payload["Ok"] = S.Agg("variant", "Ok", [S.Agg("tuple", "()", [])])
            st.events.append(("inner", callee, args, inner_err))
            return S.Agg("struct", "ReadyFuture", [res])
        if re.search(r"(?:AHashMap|HashMap)::<u64, Peer[^>]*>::get_mut::", callee):
            return ("__fork__", [(known_peer, mk_some(dty, S.Ref(S.Cell(peer), (), True))), (z3.Not(known_peer), mk_none(dty))])
        return None
    ex.on_call = hook
    st = S.State()
    st.pc.append(L.enum_in_range(status, 3))
    net = S.Opaque("network", "Network")
    body, co = L.coroutine(ctx, ex, r"network::<impl at [^>]*>::handle_handshake_response",
                           [S.Ref(S.Cell(net), (), True), ex.fresh_value("u64", "peer_index"), ctx.mk_struct(ex, "HandshakeResponse", "response"),
                            S.Opaque("wallet_lock", "Arc<RwLock<Wallet>>"), S.Opaque("blockchain_lock", "Arc<RwLock<Blockchain>>"), S.Opaque("configs_lock", "Arc<RwLock<dyn Configuration>>")])
    outs = ex.run(body, [S.Ref(S.Cell(co), (), True), S.Opaque("cx", "Context")], st)
    v.paths += len(outs)
    AUTH = r"remove_reconnected_peer$|(?:AHashMap|HashMap)::<\[u8; 33\], u64[^>]*>::insert$|request_blockchain_from_peer$|join_as_reconnection$"
    n = reached = 0
    for o in outs:
        if o.kind in ("unsupported", "unwound", "path-limit"):
            return v.undecided("%s %s" % (o.kind, o.info))
        inner = [e for e in o.events if e[0] == "inner"]
        if not inner:
            continue
        reached += 1
        auth = [e[1] for e in o.events if e[0] == "call" and re.search(AUTH, e[1])]
        v.queries += 1
        if o.kind == "panic":
            # unwraps of unmodelled I/O answers (disconnect_from_peer(..).await.unwrap()) are not judged
            if ex.feasible(o.pc, inner_err) and not re.search(r"value from: (?:await:)?ret:", o.info):
                v.fail("Network::handle_handshake_response panics after the peer-level step rejected the response: %s" % o.info, dict(path=L.trace_text(o, 10)))
            continue
        if auth and ex.feasible(o.pc, inner_err):
            v.fail("a handshake response rejected by the peer-level step is nevertheless treated as a completed handshake (%s)" % auth[0].split("::")[-1][:40],
                   dict(path=L.trace_text(o, 10), peer_had_key=str(ex.feasible(o.pc, z3.And(inner_err, enum_is(ex, pk, "Some"))))))
            continue
        if auth and ex.feasible(o.pc, z3.Not(enum_is(ex, as_enum(ex, ex.deref_value(peer_ref_field(ex, peer, ctx)), "Option"), "Some"))):
            v.fail("a peer without a recorded public key is treated as authenticated")
            continue
        n += 1
    if not reached:
        return v.undecided("the peer-level step was never reached")
    v.covers_total += 1
    v.covers_sat += 1 if n else 0


def peer_ref_field(ex, peer, ctx):
    return S.Ref(S.Cell(peer.fields[ctx.field_index("Peer", "public_key")]))


def c17_new_peer_step(ctx, v):
    """Network::handle_new_peer (a socket was opened; nothing has been signed on it yet): whether
    the index is new or belongs to a surviving entry of a static peer — in any previous status,
    with or without a key from an earlier session — the entry is NOT Connected when the function
    is done; it is Connecting, so Connected can only come from the handshake-response step on
    this connection."""
    from .models import mk_some, mk_none
    ex = ctx.executor(loop_bound=3, inline="auto", max_paths=2000, no_inline=[r"find_peer_by_index_mut$", r"initiate_handshake$", r"Peer::new$", r"fmt", r"to_hex"])
    ex.pure = [r".*"]
    pk, _ = _opt(ex, "peer.public_key", "[u8; 33]")
    status = ex.fresh_value("PeerStatus", "peer_status_before")
    spc = S.EnumV("Option<PeerConfig>", None, S.I(z3.BitVec("static_peer_config.discr", 64), True))
    existing = ctx.mk_struct(ex, "Peer", "existing", public_key=pk, peer_status=status, static_peer_config=spc)
    fresh = ctx.mk_struct(ex, "Peer", "fresh", peer_status=S.EnumV("PeerStatus", "Disconnected", dict(ctx.enums["PeerStatus"])["Disconnected"]))
    known = z3.Bool("index_has_an_entry")
    inserted = []

    def hook(ex_, st, callee, args, dty):
        if re.search(r"find_peer_by_index_mut$", callee):
            ins = [e for e in st.events if e[0] == "inserted"]
            if ins:
                return mk_some(dty, ins[-1][3])
            prev = [e for e in st.events if e[0] == "entry"]
            if prev:
                return mk_some(dty, prev[-1][3])

            def some(ex2, st2, arg):
                ref = S.Ref(S.Cell(ex2.copy_value(existing)), (), True)
                st2.events.append(("entry", "existing", [], ref))
                return mk_some(dty, ref)
            return ("__fork__", [(known, ("__thunk__", some, None)), (z3.Not(known), mk_none(dty))])
        if re.search(r"Peer::new$", callee):
            return ex_.copy_value(fresh)
        if re.search(r"(?:AHashMap|HashMap)::<u64, Peer[^>]*>::insert$", callee):
            st.events.append(("inserted", callee, args, S.Ref(S.Cell(args[2]), (), True)))
            return mk_none(dty)
        if re.search(r"initiate_handshake$", callee):
            res = S.EnumV("Result<(), Error>", "Ok", None, {"Ok": S.Agg("variant", "Ok", [S.Agg("tuple", "()", [])])})
            return S.Agg("struct", "ReadyFuture", [res])
        return None
    ex.on_call = hook
    st = S.State()
    st.pc.extend([L.enum_in_range(status, 3), L.enum_in_range(spc, 2)])
    body, co = L.coroutine(ctx, ex, r"network::<impl at [^>]*>::handle_new_peer",
                           [S.Ref(S.Cell(S.Opaque("network", "Network")), (), True), ex.fresh_value("u64", "peer_index"), S.EnumV("Option<String>", "None", None, {"None": S.Agg("variant", "None", [])})])
    outs = ex.run(body, [S.Ref(S.Cell(co), (), True), S.Opaque("cx", "Context")], st)
    v.paths += len(outs)
    conn = dict(ctx.enums["PeerStatus"])["Connected"]
    n = 0
    for o in outs:
        if o.kind in ("unsupported", "unwound", "path-limit"):
            return v.undecided("%s %s" % (o.kind, o.info))
        if o.kind != "return":
            continue
        ins = [e for e in o.events if e[0] == "inserted"]
        ent = [e for e in o.events if e[0] == "entry"]
        if not ins and not ent:
            return v.undecided("no peer entry seen on a returning path")
        target = ex.deref_value((ins or ent)[-1][3])
        stv = target.fields[ctx.field_index("Peer", "peer_status")]
        is_conn = z3.BoolVal(stv.variant == "Connected") if stv.variant is not None else (stv.discr.bv == conn)
        r, m = ex.model_for(o.pc, is_conn)
        v.queries += 1
        if r == z3.sat:
            L.fail_structural(v, o, "after handle_new_peer the peer entry is marked Connected although no handshake has taken place on the new connection (%s entry)" % ("newly inserted" if ins else "surviving static"))
        elif r == z3.unsat:
            n += 1
        else:
            return v.undecided("solver: no verdict")
    v.covers_total += 1
    v.covers_sat += 1 if n else 0
