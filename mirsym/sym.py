"""mirsym — a small symbolic executor over rustc MIR (text form), deciding assertions with z3.

Integers are bit-vectors of their Rust width (wrapping, with the overflow bit of the
*WithOverflow operations kept so that rustc's own overflow asserts are visible).  Byte
sequences (Vec<u8>, &[u8], [u8; N]) are (length, z3 array).  Aggregates are Python trees.
Calls are (a) modelled (models.py), (b) inlined when the callee's MIR is available and allowed,
or (c) uninterpreted: fresh result, `&mut` arguments havocked, event logged.
Paths fork at switchInt on symbolic values; loops are bounded per (frame, block) visit count.
"""
import copy, re, itertools
import z3

from . import mir as MIR


class Unsupported(Exception):
    pass


class SolverUnknown(Exception):
    """a deciding query (asked by an obligation after exploration) got no verdict: the obligation is undecided"""
    pass


# ------------------------------------------------------------------ values
class I:
    """integer: z3 bit-vector + signedness"""
    __slots__ = ("bv", "signed")

    def __init__(self, bv, signed=False):
        self.bv, self.signed = bv, signed

    @property
    def width(self):
        return self.bv.size()

    def __deepcopy__(self, memo):
        return self

    def __repr__(self):
        return "I(%s)" % self.bv


class Cell:
    __slots__ = ("v",)

    def __init__(self, v=None):
        self.v = v


class Ref:
    __slots__ = ("cell", "path", "mut")

    def __init__(self, cell, path=(), mut=False):
        self.cell, self.path, self.mut = cell, tuple(path), mut


class Agg:
    __slots__ = ("kind", "name", "fields")

    def __init__(self, kind, name, fields):
        self.kind, self.name, self.fields = kind, name, list(fields)


class EnumV:
    """enum value: variant name if known, discriminant (python int or I), payload per variant"""
    __slots__ = ("ty", "variant", "discr", "payload", "upvars")

    def __init__(self, ty, variant=None, discr=None, payload=None, upvars=None):
        self.ty, self.variant, self.discr, self.payload, self.upvars = ty, variant, discr, payload or {}, upvars


class Bytes:
    """byte sequence: length (I, 64 bit) and content (z3 Array BV64 -> BV8)"""
    __slots__ = ("len", "arr")

    def __init__(self, ln, arr):
        self.len, self.arr = ln, arr

    def __deepcopy__(self, memo):
        return Bytes(self.len, self.arr)


class Seq:
    """Vec<T> / [T; N] / &[T] with a concrete number of elements"""
    __slots__ = ("items", "elem_ty")

    def __init__(self, items, elem_ty=None):
        self.items, self.elem_ty = list(items), elem_ty


class Opaque:
    """unknown value of some type; projections create memoised children"""
    __slots__ = ("name", "ty", "children")

    def __init__(self, name, ty=None):
        self.name, self.ty, self.children = name, ty, {}


class MapV:
    """finite map / set model: list of [present: z3 Bool, key, value] entries, keys pairwise
    distinct among present entries (maintained by insert)"""
    __slots__ = ("entries", "name")

    def __init__(self, name, entries=None):
        # entries: [present (z3 Bool), key, Cell(value)] — values live in cells so that references
        # handed out by get / get_mut / iteration / entry() alias the map's own storage
        self.name = name
        self.entries = [[e[0], e[1], e[2] if isinstance(e[2], Cell) else Cell(e[2])] for e in (entries or [])]


UNIT = Agg("tuple", "()", [])

INT_TYPES = {"u8": (8, False), "u16": (16, False), "u32": (32, False), "u64": (64, False), "u128": (128, False), "usize": (64, False),
             "i8": (8, True), "i16": (16, True), "i32": (32, True), "i64": (64, True), "i128": (128, True), "isize": (64, True), "char": (32, False)}

STD_ENUMS = {
    "Option": ["None", "Some"], "Result": ["Ok", "Err"], "ControlFlow": ["Continue", "Break"],
    "Ordering": ["Less", "Equal", "Greater"], "Poll": ["Ready", "Pending"],
}
ORDERING_DISCR = {"Less": -1, "Equal": 0, "Greater": 1}


def bv(n, w):
    return z3.BitVecVal(n, w)


def const_int(n, ty):
    w, s = INT_TYPES[ty]
    return I(bv(n, w), s)


def is_concrete(x):
    if isinstance(x, I):
        return z3.is_bv_value(z3.simplify(x.bv))
    if isinstance(x, int):
        return True
    return False


def as_int(x):
    if isinstance(x, int):
        return x
    v = z3.simplify(x.bv)
    if not z3.is_bv_value(v):
        raise Unsupported("expected concrete integer, got %s" % v)
    n = v.as_long()
    if x.signed and n >= 1 << (x.width - 1):
        n -= 1 << x.width
    return n


class EventArgs(list):
    """argument list of a logged call with a `.snap` attribute (values at call time)"""
    snap = None


class PathEnd(Exception):
    def __init__(self, kind, info=None):
        self.kind, self.info = kind, info


class Frame:
    __slots__ = ("body", "locals", "bb", "ret_dest", "ret_bb", "depth")

    def __init__(self, body, depth):
        self.body, self.locals, self.bb, self.ret_dest, self.ret_bb, self.depth = body, {}, "bb0", None, None, depth


class State:
    def __init__(self):
        self.frames = []
        self.pc = []  # list of z3 Bool
        self.events = []  # (kind, name, args, result)
        self.visits = {}
        self.trace = []  # branch decisions (function, bb, choice)
        self.notes = []

    def fork(self):
        return copy.deepcopy(self)


class Outcome:
    def __init__(self, kind, state, value=None, info=None):
        self.kind, self.state, self.value, self.info = kind, state, value, info
        self.pc, self.events = state.pc, state.events


class Executor:
    def __init__(self, bodies, consts, enums=None, loop_bound=4, inline=None, no_inline=None, max_depth=12, max_paths=4000, models=None, uninterpreted_types=None):
        self.bodies, self.consts = bodies, consts
        self.enums = dict((k, list(v)) for k, v in (enums or {}).items())  # name -> [(variant, discr)]
        self.loop_bound, self.max_depth, self.max_paths = loop_bound, max_depth, max_paths
        self.inline, self.no_inline = inline, no_inline or []
        self.fresh_counter = itertools.count()
        self.solver = z3.Solver()
        self.solver.set("timeout", 20000)
        self._exploring = 0
        self._unknown_marks = set()
        self.models = models or []
        self.stats = dict(paths=0, forks=0, solver_checks=0, solver_time=0.0, unsupported=0)
        self.on_call = None  # hook(state, callee, args) -> None | value
        self.coroutine_bodies = {}
        self.async_inline = []
        self.stop_calls = []  # exploration of a path ends (outcome 'stopped') when one of these callees is reached
        self.pure = []  # uninterpreted callees assumed not to modify what their &mut arguments point to
        self.type_modules = {}
        self._by_method = {}
        for name, bl in bodies.items():
            for b in bl:
                mm = re.search(r"::(\w+)$", name)
                if mm and "{closure" not in name:
                    self._by_method.setdefault(mm.group(1), []).append(b)
                elif "::" not in name:
                    self._by_method.setdefault(name, []).append(b)
        self.index = {}
        for name, bl in bodies.items():
            for b in bl:
                self.index.setdefault(self.short(name), []).append(b)

    # ------------------------------------------------------------ helpers
    @staticmethod
    def short(name):
        """normalise an impl path 'transaction::<impl at ...>::validate' -> 'transaction::validate'"""
        n = re.sub(r"<impl at [^>]*>", "<impl>", name)
        return n

    def fresh(self, hint, ty):
        return self.fresh_value(ty, "%s!%d" % (hint, next(self.fresh_counter)))

    def fresh_value(self, ty, name):
        ty = (ty or "").strip()
        if ty in INT_TYPES:
            w, s = INT_TYPES[ty]
            return I(z3.BitVec(name, w), s)
        if ty == "bool":
            return z3.Bool(name)
        if ty == "()":
            return UNIT
        m = re.fullmatch(r"\[u8; (\d+)\]", ty)
        if m:
            return Bytes(const_int(int(m.group(1)), "usize"), z3.Array(name, z3.BitVecSort(64), z3.BitVecSort(8)))
        if ty in ("Vec<u8>", "std::vec::Vec<u8>", "[u8]"):
            return Bytes(I(z3.BitVec(name + ".len", 64)), z3.Array(name, z3.BitVecSort(64), z3.BitVecSort(8)))
        m = re.fullmatch(r"&(?:'\w+ )?(mut )?(.*)", ty)
        if m:
            return Ref(Cell(self.fresh_value(m.group(2), name + ".*")), (), bool(m.group(1)))
        if ty.startswith("(") and ty.endswith(")"):
            parts = MIR.split_top(ty[1:-1])
            return Agg("tuple", ty, [self.fresh_value(p, "%s.%d" % (name, i)) for i, p in enumerate(parts)])
        base = self.type_base(ty)
        if base in STD_ENUMS or base in self.enums:
            return EnumV(ty, None, I(z3.BitVec(name + ".discr", 64), True))
        return Opaque(name, ty)

    @staticmethod
    def type_base(ty):
        t = re.sub(r"<.*$", "", ty.strip())
        return t.split("::")[-1]

    def variants_of(self, ty):
        base = self.type_base(ty or "")
        if base in STD_ENUMS:
            return [(v, ORDERING_DISCR[v] if base == "Ordering" else i) for i, v in enumerate(STD_ENUMS[base])]
        if base in self.enums:
            return self.enums[base]
        return None

    def discr_of(self, ev):
        if ev.discr is not None:
            return ev.discr
        vs = self.variants_of(ev.ty)
        if vs is None:
            for base, names in STD_ENUMS.items():
                if ev.variant in names:
                    return names.index(ev.variant)
            raise Unsupported("discriminant of unknown enum %s::%s" % (ev.ty, ev.variant))
        for v, d in vs:
            if v == ev.variant:
                return d
        raise Unsupported("variant %s not in %s" % (ev.variant, ev.ty))

    # ------------------------------------------------------------ solver
    def feasible(self, pc, extra=None):
        import time
        t = time.time()
        self.solver.push()
        for c in pc:
            self.solver.add(c)
        if extra is not None:
            self.solver.add(extra)
        r = self.solver.check()
        self.solver.pop()
        self.stats["solver_checks"] += 1
        self.stats["solver_time"] += time.time() - t
        if r == z3.unknown:
            # a subset of the constraints that is unsatisfiable refutes the whole set: try the newest constraint on its own
            last = extra if extra is not None else (pc[-1] if pc else None)
            if last is not None:
                s2 = z3.Solver()
                s2.set("timeout", 20000)
                s2.add(last)
                if s2.check() == z3.unsat:
                    self.stats["refuted_by_last_constraint"] = self.stats.get("refuted_by_last_constraint", 0) + 1
                    return False
            self.stats["feasibility_unknown"] = self.stats.get("feasibility_unknown", 0) + 1
            if not self._exploring:
                # asked by an obligation as a deciding query: no verdict is neither a pass nor a failure
                raise SolverUnknown(self.solver.reason_unknown())
            # during exploration feasibility only prunes: keeping a path that might be infeasible is
            # sound; the path is marked so that a panic reached on it is re-checked before it is reported
            mark = extra if extra is not None else (pc[-1] if pc else None)
            if mark is not None:
                self._unknown_marks.add(mark.get_id())
            return True
        return r == z3.sat

    def model_for(self, pc, extra=None):
        self.solver.push()
        for c in pc:
            self.solver.add(c)
        if extra is not None:
            self.solver.add(extra)
        r = self.solver.check()
        m = self.solver.model() if r == z3.sat else None
        self.solver.pop()
        self.stats["solver_checks"] += 1
        return r, m

    # ------------------------------------------------------------ places
    def resolve(self, st, place, fr=None):
        """-> (cell, path) for a MIR place"""
        fr = fr or st.frames[-1]
        k = place[0]
        if k == "local":
            c = fr.locals.get(place[1])
            if c is None:
                c = Cell(None)
                fr.locals[place[1]] = c
            return c, ()
        if k == "deref":
            c, p = self.resolve(st, place[1], fr)
            v = self.get_path(c, p, fr.body.locals.get(place[1][1]) if place[1][0] == "local" else None)
            if isinstance(v, Ref):
                return v.cell, v.path
            if isinstance(v, Opaque):
                # reference we know nothing about: materialise a target
                ch = v.children.get("*")
                if ch is None:
                    inner = re.sub(r"^&(?:'\w+ )?(?:mut )?", "", v.ty or "")
                    ch = Cell(self.fresh_value(inner if inner != (v.ty or "") else None, v.name + ".*"))
                    v.children["*"] = ch
                return ch, ()
            if isinstance(v, Agg) and v.kind == "box":
                r = v.fields[0]
                return (r.cell, r.path) if isinstance(r, Ref) else (r, ())
            raise Unsupported("deref of %r" % type(v).__name__)
        if k == "field":
            c, p = self.resolve(st, place[1], fr)
            return c, p + (("f", place[2], place[3]),)
        if k == "downcast":
            c, p = self.resolve(st, place[1], fr)
            return c, p + (("dc", place[2]),)
        if k == "index":
            c, p = self.resolve(st, place[1], fr)
            idx = self.read_place(st, ("local", place[2]), fr)
            return c, p + (("i", idx),)
        if k == "constindex":
            c, p = self.resolve(st, place[1], fr)
            m = re.fullmatch(r"(\d+) of (\d+)", place[2])
            if m:
                return c, p + (("i", const_int(int(m.group(1)), "usize")),)
            raise Unsupported("constant index form " + place[2])
        raise Unsupported("place kind " + k)

    def step_get(self, v, el, name_hint="v"):
        if el[0] == "f":
            idx, ty = el[1], el[2] if len(el) > 2 else None
            if isinstance(v, Agg) and v.kind == "box" and idx == 0:
                return v.fields[0]
            if isinstance(v, Agg):
                if idx >= len(v.fields):
                    if v.kind != "variant":
                        raise Unsupported("field %d of %s(%d)" % (idx, v.name, len(v.fields)))
                    while len(v.fields) <= idx:
                        v.fields.append(None)
                if v.fields[idx] is None:
                    v.fields[idx] = self.fresh_value(ty, "%s.%d!%d" % (v.name, idx, next(self.fresh_counter)))
                return v.fields[idx]
            if isinstance(v, EnumV) and v.upvars is not None:
                return v.upvars[idx]
            if isinstance(v, Opaque):
                key = ("f", idx)
                if key not in v.children:
                    v.children[key] = self.fresh_value(ty, "%s.%d" % (v.name, idx))
                return v.children[key]
            if isinstance(v, Ref):
                # wrappers modelled as identity (Pin, Arc, lock guards) can leave an extra reference
                # level: a field projection on a reference goes through to the referent when the
                # field's declared type is not itself a reference/pointer wrapper
                t = self.deref_value(v)
                wrapper = ty is not None and re.match(r"^(&|\*|std::ptr::|core::ptr::|std::pin::Pin|Pin<)", ty.strip())
                if idx == 0 and (wrapper or ty is None and not isinstance(t, (Agg, Opaque, EnumV))):
                    return v
                if isinstance(t, (Agg, Opaque)) or (isinstance(t, EnumV) and t.upvars is not None):
                    return self.step_get(t, el, name_hint)
                if idx == 0:
                    return v
            if isinstance(v, Agg) and v.kind == "box" and idx == 0:
                return v.fields[0]
            raise Unsupported("field of %s" % type(v).__name__)
        if el[0] == "dc":
            if isinstance(v, EnumV):
                if el[1] not in v.payload:
                    v.payload[el[1]] = Agg("variant", el[1], [])
                return v.payload[el[1]]
            if isinstance(v, Opaque):
                key = ("dc", el[1])
                if key not in v.children:
                    v.children[key] = Opaque("%s.%s" % (v.name, el[1]), None)
                return v.children[key]
            raise Unsupported("downcast of %s" % type(v).__name__)
        if el[0] == "i":
            idx = el[1]
            if isinstance(v, Bytes):
                return I(z3.Select(v.arr, idx.bv if isinstance(idx, I) else bv(idx, 64)), False)
            if isinstance(v, (Seq, Agg)):
                items = v.items if isinstance(v, Seq) else v.fields
                if is_concrete(idx):
                    n = as_int(idx)
                    if n >= len(items):
                        raise PathEnd("panic", "index %d out of bounds (len %d)" % (n, len(items)))
                    return items[n]
                raise Unsupported("symbolic index into a sequence of non-byte elements")
            raise Unsupported("index of %s" % type(v).__name__)
        raise Unsupported("path element %r" % (el,))

    def get_path(self, cell, path, ty_hint=None):
        v = cell.v
        if v is None:
            v = cell.v = Opaque("uninit!%d" % next(self.fresh_counter), ty_hint)
        for el in path:
            v = self.step_get(v, el)
        return v

    def set_path(self, cell, path, val):
        if not path:
            cell.v = val
            return
        if cell.v is None:
            cell.v = Opaque("uninit!%d" % next(self.fresh_counter), None)
        v = cell.v
        for el in path[:-1]:
            v = self.step_get(v, el)
        el = path[-1]
        if el[0] == "f":
            if isinstance(v, Agg):
                while len(v.fields) <= el[1]:
                    v.fields.append(None)
                v.fields[el[1]] = val
            elif isinstance(v, Opaque):
                v.children[("f", el[1])] = val
            elif isinstance(v, EnumV) and v.upvars is not None:
                v.upvars[el[1]] = val
            else:
                raise Unsupported("set field of %s" % type(v).__name__)
        elif el[0] == "i":
            idx = el[1]
            if isinstance(v, Bytes):
                v.arr = z3.Store(v.arr, idx.bv, val.bv)
            elif isinstance(v, (Seq, Agg)) and is_concrete(idx):
                items = v.items if isinstance(v, Seq) else v.fields
                items[as_int(idx)] = val
            else:
                raise Unsupported("set index")
        elif el[0] == "dc":
            raise Unsupported("assign to downcast")

    def read_place(self, st, place, fr=None):
        fr = fr or st.frames[-1]
        c, p = self.resolve(st, place, fr)
        hint = fr.body.locals.get(place[1]) if place[0] == "local" else None
        if c.v is None and not p:
            c.v = self.fresh_value(hint, "%s!%d" % (place[1] if place[0] == "local" else "tmp", next(self.fresh_counter)))
        return self.get_path(c, p, hint)

    def write_place(self, st, place, val, fr=None):
        fr = fr or st.frames[-1]
        c, p = self.resolve(st, place, fr)
        self.set_path(c, p, val)

    # ------------------------------------------------------------ operands / constants
    def eval_const(self, text, st):
        t = text.strip()
        m = re.fullmatch(r"(-?\d+)_(\w+)", t)
        if m and m.group(2) in INT_TYPES:
            return const_int(int(m.group(1)), m.group(2))
        if re.fullmatch(r"-?[\d.]+(?:[eE][-+]?\d+)?f(?:64|32)", t):
            return Opaque("float_const:" + t, "f64")
        if t == "true":
            return z3.BoolVal(True)
        if t == "false":
            return z3.BoolVal(False)
        if t == "()":
            return UNIT
        m = re.fullmatch(r"'(.)'", t)
        if m:
            return const_int(ord(m.group(1)), "char")
        zm = re.match(r"^ZeroSized: (\{closure@.*\})$", t)
        if zm:
            return Agg("closure", zm.group(1), [])
        if t.startswith('"') or t.startswith('b"'):
            return Opaque("str:" + t[:40], "&str")
        pm = re.search(r"::(promoted\[\d+\])$", t)
        if pm and st is not None and st.frames:
            b = self.consts.get(st.frames[-1].body.name + "::" + pm.group(1))
            if b is not None:
                v = self.run_const(b)
                if v is not None:
                    return v
        # named constant with a body in the dump
        for key in (t, re.sub(r"^<(.*) as .*>::", r"\1::", t)):
            b = self.consts.get(key)
            if b is not None:
                v = self.const_body_value(b)
                if v is not None:
                    return v
        # suffix match on the last path segments (const names are printed with different prefixes)
        tail = t.split("::")[-1]
        cands = [b for k, b in self.consts.items() if k.split("::")[-1] == tail and "promoted" not in tail]
        if len(cands) == 1:
            v = self.const_body_value(cands[0])
            if v is not None:
                return v
            if getattr(cands[0], "simple", None) is None:
                v = self.run_const(cands[0])  # aggregates (const arrays / tuples), arithmetic constant expressions
                if v is not None:
                    return self.copy_value(v)
        m = re.fullmatch(r"(?:\w+::)*(\w+)::(MAX|MIN)", t) or re.fullmatch(r"(?:core|std)::num::<impl (\w+)>::(MAX|MIN)", t)
        if m and m.group(1) in INT_TYPES:
            w, s = INT_TYPES[m.group(1)]
            if m.group(2) == "MAX":
                return I(bv((1 << (w - 1)) - 1 if s else (1 << w) - 1, w), s)
            return I(bv(-(1 << (w - 1)) if s else 0, w), s)
        return Opaque("const:" + t[:80], None)

    def run_const(self, b):
        """evaluate a straight-line constant body (promoteds like `&SlipType::Bound`)"""
        try:
            st = State()
            fr = Frame(b, 0)
            st.frames.append(fr)
            bb = "bb0"
            for _ in range(32):
                blk = b.blocks[bb]
                for stt in blk.stmts:
                    self.exec_stmt(st, stt)
                if blk.term[0] == "return":
                    c = fr.locals.get("_0")
                    v = c.v if c is not None else None
                    if isinstance(v, I):
                        v = I(z3.simplify(v.bv), v.signed)
                    return v
                if blk.term[0] == "goto":
                    bb = blk.term[1]
                    continue
                if blk.term[0] == "assert":
                    # constant expressions: the overflow asserts of `const N: usize = 32 + 32 + ...` are decided by the compiler; follow the success edge
                    tgt = blk.term[-1].get("success") if isinstance(blk.term[-1], dict) else None
                    if tgt:
                        bb = tgt
                        continue
                return None
        except (Unsupported, PathEnd, KeyError):
            return None
        return None

    def const_body_value(self, b):
        """constant bodies of the form `_0 = const N_ty;` (possibly through one temp)"""
        if getattr(b, "simple", None) is not None:
            v = self.eval_const(b.simple, None)
            return v if isinstance(v, (I, z3.BoolRef)) else None
        try:
            blk = b.blocks.get("bb0")
            vals = {}
            for stt in blk.stmts:
                if stt[0] == "assign" and stt[2][0] == "use" and stt[2][1][0] == "const":
                    vals[stt[1][1] if stt[1][0] == "local" else None] = self.eval_const(stt[2][1][1], None)
                elif stt[0] == "assign" and stt[2][0] == "use" and stt[2][1][0] in ("copy", "move") and stt[2][1][1][0] == "local":
                    vals[stt[1][1]] = vals.get(stt[2][1][1][1])
                elif stt[0] == "assign" and stt[2][0] == "cast" and stt[2][1][0] == "const":
                    v = self.eval_const(stt[2][1][1], None)
                    if isinstance(v, I) and stt[2][2] in INT_TYPES:
                        vals[stt[1][1]] = self.cast_int(v, stt[2][2])
                elif stt[0] == "assign" and stt[2][0] == "binop":
                    a = self._const_op(stt[2][2], vals)
                    c = self._const_op(stt[2][3], vals)
                    if isinstance(a, I) and isinstance(c, I):
                        r = self.binop(stt[2][1], a, c)
                        vals[stt[1][1]] = r
                elif stt[0] == "assign" and stt[2][0] == "use" and stt[2][1][0] in ("copy", "move") and stt[2][1][1][0] == "field":
                    base = vals.get(stt[2][1][1][1][1]) if stt[2][1][1][1][0] == "local" else None
                    if isinstance(base, Agg):
                        vals[stt[1][1]] = base.fields[stt[2][1][1][2]]
            v = vals.get("_0")
            if isinstance(v, I):
                return I(z3.simplify(v.bv), v.signed)
            return v if isinstance(v, (I, z3.BoolRef)) else None
        except Exception:
            return None

    def _const_op(self, op, vals):
        if op[0] == "const":
            return self.eval_const(op[1], None)
        if op[1][0] == "local":
            return vals.get(op[1][1])
        return None

    def eval_operand(self, st, op):
        k = op[0]
        if k in ("copy", "move"):
            v = self.read_place(st, op[1])
            return v
        if k == "const":
            return self.eval_const(op[1], st)
        return Opaque("raw:" + str(op[1])[:60], None)

    # ------------------------------------------------------------ arithmetic
    def cast_int(self, v, ty):
        w, s = INT_TYPES[ty]
        if isinstance(v, z3.BoolRef):
            return I(z3.If(v, bv(1, w), bv(0, w)), s)
        if not isinstance(v, I):
            raise Unsupported("cast of %s" % type(v).__name__)
        if v.width == w:
            return I(v.bv, s)
        if v.width > w:
            return I(z3.Extract(w - 1, 0, v.bv), s)
        return I(z3.SignExt(w - v.width, v.bv) if v.signed else z3.ZeroExt(w - v.width, v.bv), s)

    @staticmethod
    def is_float(x):
        return isinstance(x, Opaque) and x.ty in ("f64", "f32")

    def binop(self, op, a, b):
        if isinstance(a, z3.BoolRef) or isinstance(b, z3.BoolRef):
            a = a if isinstance(a, z3.BoolRef) else (a.bv != 0)
            b = b if isinstance(b, z3.BoolRef) else (b.bv != 0)
            return {"Eq": a == b, "Ne": a != b, "BitAnd": z3.And(a, b), "BitOr": z3.Or(a, b), "BitXor": z3.Xor(a, b),
                    "Lt": z3.And(z3.Not(a), b), "Le": z3.Or(z3.Not(a), b), "Gt": z3.And(a, z3.Not(b)), "Ge": z3.Or(a, z3.Not(b))}[op]
        if self.is_float(a) or self.is_float(b):
            # floating point is not modelled: every float result is an arbitrary value (sound over-approximation)
            n = next(self.fresh_counter)
            if op in ("Eq", "Ne", "Lt", "Le", "Gt", "Ge"):
                return z3.Bool("fcmp!%d" % n)
            return Opaque("float!%d" % n, "f64")
        if not (isinstance(a, I) and isinstance(b, I)):
            raise Unsupported("binop %s on %s,%s" % (op, type(a).__name__, type(b).__name__))
        s, w = a.signed, a.width
        x, y = a.bv, b.bv
        if y.size() != w:
            if op in ("Shl", "Shr", "ShlUnchecked", "ShrUnchecked"):
                y = z3.ZeroExt(w - y.size(), y) if y.size() < w else z3.Extract(w - 1, 0, y)
            else:
                raise Unsupported("width mismatch in %s: %d vs %d" % (op, w, y.size()))
        if op in ("Add", "AddUnchecked"):
            return I(x + y, s)
        if op in ("Sub", "SubUnchecked"):
            return I(x - y, s)
        if op in ("Mul", "MulUnchecked"):
            return I(x * y, s)
        if op in ("Div", "Rem") and not s and z3.is_bv_value(y):
            # unsigned division / remainder by a constant power of two: the same function as a shift / mask, far cheaper to bit-blast
            c = y.as_long()
            if c > 0 and c & (c - 1) == 0:
                k = c.bit_length() - 1
                if op == "Div":
                    return I(z3.LShR(x, z3.BitVecVal(k, w)), s)
                return I(x & z3.BitVecVal(c - 1, w), s)
        if op == "Div":
            return I(x / y if s else z3.UDiv(x, y), s)
        if op == "Rem":
            return I(z3.SRem(x, y) if s else z3.URem(x, y), s)
        if op == "BitAnd":
            return I(x & y, s)
        if op == "BitOr":
            return I(x | y, s)
        if op == "BitXor":
            return I(x ^ y, s)
        if op in ("Shl", "ShlUnchecked"):
            return I(x << y, s)
        if op in ("Shr", "ShrUnchecked"):
            return I(x >> y if s else z3.LShR(x, y), s)
        if op == "Eq":
            return x == y
        if op == "Ne":
            return x != y
        if op == "Lt":
            return x < y if s else z3.ULT(x, y)
        if op == "Le":
            return x <= y if s else z3.ULE(x, y)
        if op == "Gt":
            return x > y if s else z3.UGT(x, y)
        if op == "Ge":
            return x >= y if s else z3.UGE(x, y)
        if op in ("AddWithOverflow", "SubWithOverflow", "MulWithOverflow"):
            if op == "AddWithOverflow":
                r = x + y
                ov = z3.Not(z3.BVAddNoOverflow(x, y, s)) if not s else z3.Or(z3.Not(z3.BVAddNoOverflow(x, y, True)), z3.Not(z3.BVAddNoUnderflow(x, y)))
            elif op == "SubWithOverflow":
                r = x - y
                ov = z3.ULT(x, y) if not s else z3.Or(z3.Not(z3.BVSubNoOverflow(x, y)), z3.Not(z3.BVSubNoUnderflow(x, y, True)))
            else:
                r = x * y
                xs, ys = z3.simplify(x), z3.simplify(y)
                if not s and (z3.is_bv_value(ys) or z3.is_bv_value(xs)):
                    # multiplication by a constant: overflow iff the other factor exceeds MAX / c
                    cst, var = (ys, x) if z3.is_bv_value(ys) else (xs, y)
                    cv = cst.as_long()
                    ov = z3.BoolVal(False) if cv == 0 else z3.UGT(var, bv(((1 << w) - 1) // cv, w))
                else:
                    ov = z3.Not(z3.BVMulNoOverflow(x, y, s)) if not s else z3.Or(z3.Not(z3.BVMulNoOverflow(x, y, True)), z3.Not(z3.BVMulNoUnderflow(x, y)))
            return Agg("tuple", "(int,bool)", [I(r, s), ov])
        if op == "Cmp":
            lt = (x < y) if s else z3.ULT(x, y)
            d = z3.If(lt, bv(-1, 64), z3.If(x == y, bv(0, 64), bv(1, 64)))
            return EnumV("Ordering", None, I(d, True))
        raise Unsupported("binop " + op)

    # ------------------------------------------------------------ rvalues
    def eval_rvalue(self, st, rv, dest_ty=None):
        k = rv[0]
        if k == "use":
            v = self.eval_operand(st, rv[1])
            if rv[1][0] == "copy":
                v = self.copy_value(v)
            return v
        if k == "ref":
            c, p = self.resolve(st, rv[2])
            if c.v is None and not p:
                fr = st.frames[-1]
                c.v = self.fresh_value(fr.body.locals.get(rv[2][1]) if rv[2][0] == "local" else None, "r!%d" % next(self.fresh_counter))
            return Ref(c, p, "mut" in rv[1])
        if k == "binop":
            return self.binop(rv[1], self.eval_operand(st, rv[2]), self.eval_operand(st, rv[3]))
        if k == "unop":
            v = self.eval_operand(st, rv[2])
            if rv[1] == "Not":
                return z3.Not(v) if isinstance(v, z3.BoolRef) else I(~v.bv, v.signed)
            if rv[1] == "Neg":
                return I(-v.bv, v.signed)
            if rv[1] == "PtrMetadata":
                t = self.deref_value(v)
                if isinstance(t, Bytes):
                    return t.len
                if isinstance(t, Seq):
                    return const_int(len(t.items), "usize")
            raise Unsupported("unop " + rv[1])
        if k == "cast":
            v = self.eval_operand(st, rv[1])
            ty = rv[2]
            if ty in INT_TYPES:
                if isinstance(v, EnumV):
                    d = self.discr_of(v)
                    v = d if isinstance(d, I) else I(bv(d, 64), True)
                if self.is_float(v):
                    w_, s_ = INT_TYPES[ty]
                    return I(z3.BitVec("float_to_int!%d" % next(self.fresh_counter), w_), s_)
                return self.cast_int(v, ty)
            if rv[3].startswith(("PointerCoercion", "Transmute", "PtrToPtr", "Unsize")):
                return v
            if ty in ("f64", "f32"):
                return Opaque("float!%d" % next(self.fresh_counter), "f64")
            return v
        if k == "discriminant":
            v = self.read_place(st, rv[1])
            if isinstance(v, EnumV):
                d = self.discr_of(v)
                d = d if isinstance(d, I) else I(bv(d, 64), True)
                if dest_ty in INT_TYPES and INT_TYPES[dest_ty][0] != d.width:
                    d = self.cast_int(d, dest_ty)
                return d
            if isinstance(v, Opaque):
                if "discr" not in v.children:
                    v.children["discr"] = I(z3.BitVec(v.name + ".discr", 64), True)
                return v.children["discr"]
            if isinstance(v, z3.BoolRef):
                return I(z3.If(v, bv(1, 64), bv(0, 64)), True)
            raise Unsupported("discriminant of %s" % type(v).__name__)
        if k == "len":
            v = self.read_place(st, rv[1])
            if isinstance(v, Bytes):
                return v.len
            if isinstance(v, (Seq, Agg)):
                return const_int(len(v.items if isinstance(v, Seq) else v.fields), "usize")
            raise Unsupported("Len of %s" % type(v).__name__)
        if k == "tuple":
            return Agg("tuple", "tuple", [self.eval_operand(st, o) for o in rv[1]])
        if k == "array":
            items = [self.eval_operand(st, o) for o in rv[1]]
            if items and all(isinstance(x, I) and x.width == 8 for x in items):
                arr = z3.K(z3.BitVecSort(64), bv(0, 8))
                for i, x in enumerate(items):
                    arr = z3.Store(arr, bv(i, 64), x.bv)
                return Bytes(const_int(len(items), "usize"), arr)
            return Seq(items)
        if k == "repeat":
            v = self.eval_operand(st, rv[1])
            n = self.eval_const(rv[2] if re.search(r"_usize$", rv[2]) else rv[2] + "_usize", st) if re.fullmatch(r"\d+(_usize)?", rv[2].replace("const ", "")) else self.eval_const(rv[2].replace("const ", ""), st)
            n = as_int(n)
            if isinstance(v, I) and v.width == 8:
                return Bytes(const_int(n, "usize"), z3.K(z3.BitVecSort(64), v.bv))
            if n > 64:
                raise Unsupported("large repeat")
            return Seq([self.copy_value(v) for _ in range(n)])
        if k == "struct":
            vals = [self.eval_operand(st, o) for _, o in rv[2]]
            segs = re.sub(r"::<.*?>", "", rv[1]).split("::")
            if len(segs) >= 2:
                vs = self.variants_of(segs[-2])
                if vs and any(vn == segs[-1] for vn, _ in vs):
                    # struct-like enum variant  Enum::Variant { field: .. }
                    return EnumV(segs[-2], segs[-1], None, {segs[-1]: Agg("variant", segs[-1], vals)})
            return Agg("struct", rv[1], vals)
        if k == "variant":
            path = rv[1]
            ops = [self.eval_operand(st, o) for o in rv[2]]
            base = re.sub(r"::<.*?>(?=::\w+$)", "", path)
            segs = base.split("::")
            variant = segs[-1]
            ty = "::".join(segs[:-1]) if len(segs) > 1 else (dest_ty or "")
            if not ty:
                ty = dest_ty or ""
            vs = self.variants_of(ty) or self.variants_of(dest_ty or "")
            if vs and any(v == variant for v, _ in vs):
                tyname = ty if self.variants_of(ty) else dest_ty
                return EnumV(tyname, variant, None, {variant: Agg("variant", variant, ops)})
            if vs is None and not ops and re.fullmatch(r"[A-Z]\w*", variant) and dest_ty and self.variants_of(dest_ty) is None and len(segs) == 1:
                # bare path: unit variant of an enum we have no definition for, or unit struct
                return EnumV(dest_ty, variant, None, {variant: Agg("variant", variant, [])}) if False else Agg("struct", path, [])
            if vs is None:
                # tuple struct constructor or enum unknown to us
                known = [b for b, names in STD_ENUMS.items() if variant in names]
                if known and len(segs) > 1 and self.type_base(ty) == known[0]:
                    return EnumV(ty, variant, None, {variant: Agg("variant", variant, ops)})
                return Agg("struct", path, ops)
            return Agg("struct", path, ops)
        if k == "closure":
            ops = list(rv[2])
            need = self._closure_upvar_types(rv[1])
            if need and len(ops) < len(need) and ops and ops[-1][0] in ("move", "copy") and ops[-1][1][0] == "local":
                # rustc's MIR printer zips capture NAMES with operands and drops operands when one variable is captured
                # through several disjoint fields (`self.a`, `self.b` -> one name `self`): the missing operands are the
                # temporaries numbered right after the last printed one; accept them only if their declared types are
                # exactly the types the closure body reads its remaining captures at
                fr = st.frames[-1]
                mm = re.fullmatch(r"_(\d+)", ops[-1][1][1])
                if mm:
                    nxt = int(mm.group(1))
                    extra = []
                    for want in need[len(ops):]:
                        nxt += 1
                        loc = "_%d" % nxt
                        have = (fr.body.locals.get(loc) or "").replace(" ", "")
                        if loc in fr.locals and want and have == want.replace(" ", ""):
                            extra.append(("move", ("local", loc)))
                        else:
                            extra = None
                            break
                    if extra:
                        ops += extra
            return Agg("closure", rv[1], [self.eval_operand(st, o) for o in ops])
        raise Unsupported("rvalue " + str(rv)[:80])

    def deref_value(self, v):
        while isinstance(v, Ref):
            v = self.get_path(v.cell, v.path)
        return v

    def copy_value(self, v):
        if isinstance(v, (I, z3.ExprRef, Ref, Bytes)) or v is None:
            return Bytes(v.len, v.arr) if isinstance(v, Bytes) else v
        if isinstance(v, Agg):
            return Agg(v.kind, v.name, [self.copy_value(x) for x in v.fields])
        if isinstance(v, Seq):
            return Seq([self.copy_value(x) for x in v.items], v.elem_ty)
        if isinstance(v, EnumV):
            return EnumV(v.ty, v.variant, v.discr, dict((k, self.copy_value(p)) for k, p in v.payload.items()), None if v.upvars is None else [self.copy_value(x) for x in v.upvars])
        if isinstance(v, Opaque):
            return v  # opaque values are immutable blobs; children are memoised facts about them
        return v

    # ------------------------------------------------------------ running
    def find_body(self, callee):
        """map a callee string at a call site to a Body of this crate (or None)"""
        c = callee.strip()
        c = re.sub(r"::<[^()]*?>(?=\(|$)", "", c) if False else c
        cands = self._callee_index().get(self.callee_key(c))
        if cands and len(cands) == 1:
            return cands[0]
        return None

    _ci = None

    def _callee_index(self):
        if self._ci is None:
            self._ci = {}
            for name, bl in self.bodies.items():
                for b in bl:
                    self._ci.setdefault(self.body_key(b), []).append(b)
        return self._ci

    @staticmethod
    def strip_generics(s):
        out, depth = [], 0
        i = 0
        while i < len(s):
            ch = s[i]
            if ch == "<":
                depth += 1
            elif ch == ">" and s[i - 1] not in "-=":
                depth -= 1
            elif depth == 0:
                out.append(ch)
            i += 1
        return "".join(out)

    def body_key(self, b):
        """(self type or module tail, method name, nargs)"""
        name = b.name
        meth = name.split("::")[-1] if not name.endswith("}") else "::".join(name.split("::")[-2:])
        m = re.search(r"<impl at [^>]*>::((?:\w+|\{closure#\d+\})(?:::\{closure#\d+\})*)$", name)
        self_ty = None
        if m:
            meth = m.group(1)
            if b.args:
                t = b.args[0][1]
                t = re.sub(r"^&(?:'\w+ )?(?:mut )?", "", t)
                self_ty = self.type_base(t)
        return (meth, len(b.args), None)

    def callee_key(self, c):
        base = self.strip_generics(c)
        meth = base.split("::")[-1]
        return (meth, None, None)

    def run(self, body, args, st=None, on_outcome=None):
        """explore all paths of `body` from `args`; returns list of Outcome"""
        st = st or State()
        fr = Frame(body, 0)
        for (loc, ty), v in zip(body.args, args):
            fr.locals[loc] = Cell(v)
        st.frames.append(fr)
        outcomes = []
        work = [st]
        self._exploring += 1
        try:
            while work:
                s = work.pop()
                if self.stats["paths"] >= self.max_paths:
                    outcomes.append(Outcome("path-limit", s))
                    break
                try:
                    more = self.run_path(s, outcomes)
                    work.extend(more)
                except Unsupported as e:
                    self.stats["unsupported"] += 1
                    where = ""
                    if s.frames:
                        where = " @ %s:%s" % (s.frames[-1].body.name.split("::")[-1], s.frames[-1].bb)
                    outcomes.append(Outcome("unsupported", s, info=str(e) + where))
                    self.stats["paths"] += 1
        finally:
            self._exploring -= 1
        if self._unknown_marks and not self._exploring:
            outcomes = self._recheck_panics(outcomes)
        return outcomes

    def _recheck_panics(self, outcomes):
        """a panic outcome whose path passed through a feasibility query the solver could not answer
        is re-checked with a longer time limit: infeasible -> dropped; still no verdict -> reported as
        `unsupported` (the obligation becomes undecided), never as a reachable panic"""
        out = []
        for o in outcomes:
            if o.kind == "panic" and any(c.get_id() in self._unknown_marks for c in o.pc):
                self.solver.set("timeout", 120000)
                try:
                    r, _ = self.model_for(o.pc)
                finally:
                    self.solver.set("timeout", 20000)
                if r == z3.unsat:
                    self.stats["panic_paths_refuted_late"] = self.stats.get("panic_paths_refuted_late", 0) + 1
                    continue
                if r != z3.sat:
                    o = Outcome("unsupported", o.state, info="solver gave no verdict on the feasibility of a panic path (%s)" % o.info)
            out.append(o)
        return out

    def run_path(self, st, outcomes):
        """run one state until it ends or forks; returns list of forked states"""
        while True:
            fr = st.frames[-1]
            blk = fr.body.blocks[fr.bb]
            key = (fr.depth, fr.body.name, fr.body.line, fr.bb)
            n = st.visits.get(key, 0) + 1
            st.visits[key] = n
            if n > self.loop_bound + 1:
                if self.feasible(st.pc):
                    outcomes.append(Outcome("unwound", st, info="%s %s" % (fr.body.name, fr.bb)))
                self.stats["paths"] += 1
                return []
            try:
                for stt in blk.stmts:
                    self.exec_stmt(st, stt)
                res = self.exec_term(st, blk.term, outcomes)
            except PathEnd as pe:
                if self.feasible(st.pc):
                    outcomes.append(Outcome(pe.kind, st, info=pe.info))
                self.stats["paths"] += 1
                return []
            if res is None:
                continue
            if res == "done":
                self.stats["paths"] += 1
                return []
            return res  # list of forked states

    def exec_stmt(self, st, stt):
        k = stt[0]
        if k == "assign":
            fr = st.frames[-1]
            dest_ty = fr.body.locals.get(stt[1][1]) if stt[1][0] == "local" else (stt[1][3] if stt[1][0] == "field" else None)
            v = self.eval_rvalue(st, stt[2], dest_ty)
            self.write_place(st, stt[1], v)
        elif k == "setdiscr":
            v = self.read_place(st, stt[1])
            if isinstance(v, EnumV):
                v.discr, v.variant = int(stt[2]), None
            else:
                raise Unsupported("SetDiscriminant on %s" % type(v).__name__)
        elif k == "assume":
            v = self.eval_operand(st, stt[1])
            if isinstance(v, z3.BoolRef):
                st.pc.append(v)
        elif k in ("unparsed", "unknown_stmt"):
            raise Unsupported("statement: " + str(stt[1])[:80])

    def branch(self, st, choices, outcomes):
        """choices: list of (cond: z3 Bool | True, target bb, label).  Returns None (continue in place) or list of states."""
        feas = []
        for cond, tgt, label in choices:
            if cond is True:
                feas.append((None, tgt, label))
            else:
                c = z3.simplify(cond)
                if z3.is_false(c):
                    continue
                if z3.is_true(c):
                    feas.append((None, tgt, label))
                    continue
                if self.feasible(st.pc, c):
                    feas.append((c, tgt, label))
        if not feas:
            raise PathEnd("infeasible")
        fr = st.frames[-1]
        if len(feas) == 1:
            c, tgt, label = feas[0]
            if c is not None:
                st.pc.append(c)
            st.trace.append((fr.body.name, fr.bb, label))
            fr.bb = tgt
            return None
        self.stats["forks"] += len(feas) - 1
        out = []
        for i, (c, tgt, label) in enumerate(feas):
            s2 = st if i == len(feas) - 1 else st.fork()
            if c is not None:
                s2.pc.append(c)
            f2 = s2.frames[-1]
            s2.trace.append((f2.body.name, f2.bb, label))
            f2.bb = tgt
            out.append(s2)
        return out

    def exec_term(self, st, term, outcomes):
        fr = st.frames[-1]
        k = term[0]
        if k == "goto":
            fr.bb = term[1]
            return None
        if k == "switch":
            v = self.eval_operand(st, term[1])
            arms = term[2]
            choices = []
            if isinstance(v, z3.BoolRef):
                others = []
                for a, tgt in arms:
                    if a == "otherwise":
                        choices.append((z3.And(*[z3.Not(o) for o in others]) if others else True, tgt, "otherwise"))
                    else:
                        c = v if int(a) != 0 else z3.Not(v)
                        others.append(c)
                        choices.append((c, tgt, a))
            elif isinstance(v, I):
                others = []
                for a, tgt in arms:
                    if a == "otherwise":
                        choices.append((z3.And(*[z3.Not(o) for o in others]) if others else True, tgt, "otherwise"))
                    else:
                        n = int(a)
                        c = v.bv == bv(n, v.width)
                        others.append(c)
                        choices.append((c, tgt, a))
            else:
                raise Unsupported("switch on %s" % type(v).__name__)
            return self.branch(st, choices, outcomes)
        if k == "return":
            rv = fr.locals.get("_0")
            val = rv.v if rv is not None else UNIT
            st.frames.pop()
            if not st.frames:
                st.frames.append(fr)  # keep for inspection
                outcomes.append(Outcome("return", st, value=val))
                return "done"
            caller = st.frames[-1]
            if fr.ret_dest is not None:
                self.write_place(st, fr.ret_dest, val, caller)
            caller.bb = fr.ret_bb
            return None
        if k == "unreachable":
            raise PathEnd("infeasible")
        if k == "resume":
            raise PathEnd("unwind")
        if k == "drop":
            fr.bb = term[2].get("return")
            return None
        if k == "assert":
            neg, cond_op, msg, targets = term[1], term[2], term[3], term[4]
            c = self.eval_operand(st, cond_op)
            if not isinstance(c, z3.BoolRef):
                raise Unsupported("assert on non-bool")
            ok = z3.Not(c) if neg else c
            bad = z3.simplify(z3.Not(ok))
            if not z3.is_false(bad) and self.feasible(st.pc, bad):
                s2 = st.fork()
                s2.pc.append(bad)
                outcomes.append(Outcome("panic", s2, info="assert failed: " + msg[:80] + " @ " + fr.body.name.split("::")[-1] + ":" + fr.bb))
            st.pc.append(ok)
            if not self.feasible(st.pc):
                raise PathEnd("infeasible")
            fr.bb = targets.get("success")
            return None
        if k == "call":
            return self.exec_call(st, term, outcomes)
        if k == "yield":
            raise Unsupported("yield")
        raise Unsupported("terminator " + str(term)[:60])

    # ------------------------------------------------------------ calls
    PANIC_RE = re.compile(r"panicking::|::panic_fmt|unwrap_failed|expect_failed|slice_index_fail|slice_start_index_len_fail|slice_end_index_len_fail|panic_bounds_check|::begin_panic|assert_failed|unreachable_display|core::panicking")

    STD_MUTATOR_RE = re.compile(r"^(?:std::(?:vec|collections)::)?(?:Vec|VecDeque|AHashMap|HashMap|AHashSet|HashSet|LinkedList|BTreeMap|BTreeSet)::<.*>::"
                                r"(remove|swap_remove|retain|retain_mut|clear|drain|truncate|pop|pop_front|pop_back|push|push_front|push_back|insert|append|extend|extend_from_slice|dedup|dedup_by_key|"
                                r"sort|sort_by|sort_unstable|sort_unstable_by|sort_by_key|reverse|resize|split_off|swap|fill|remove_entry|take)(?:::<.*>)?$")
    STD_CALLEE_RE = re.compile(r"^(?:core|std|alloc)::|^<[^>]*\bas (?:core|std|alloc)::|^<&?(?:mut )?(?:u8|u16|u32|u64|u128|usize|i8|i16|i32|i64|i128|isize|bool|String|str)\b|^(?:Vec|VecDeque|String|Option|Result|Box|Rc|Arc|Cell|RefCell|AHashMap|HashMap|AHashSet|HashSet|BTreeMap|LinkedList)::<")
    ALLOC_RE = re.compile(r"(?:Vec|VecDeque|String|AHashMap|HashMap|AHashSet|HashSet)(?:::<(.*)>)?::(?:with_capacity|reserve|reserve_exact|resize)$|vec::from_elem::<(.*)>$")

    def exec_call(self, st, term, outcomes):
        _, dest, callee, arg_ops, targets = term
        fr = st.frames[-1]
        args = [self.eval_operand(st, a) for a in arg_ops]
        ret_bb = targets.get("return")
        dest_ty = None
        if dest is not None and dest[0] == "local":
            dest_ty = fr.body.locals.get(dest[1])
        for pat in self.stop_calls:
            if re.search(pat, callee):
                st.events.append(("call", callee, args, None))
                raise PathEnd("stopped", callee)
        if self.PANIC_RE.search(callee):
            st.events.append(("call", callee, args, None))
            raise PathEnd("panic", "call to " + callee[:100] + " @ " + fr.body.name.split("::")[-1] + ":" + fr.bb)
        am = self.ALLOC_RE.search(callee)
        if am:
            # capacity requests are logged (element count, element type) whatever the container model does with them
            cnt = [a for a in args if isinstance(a, I)]
            if cnt:
                st.events.append(("alloc", callee, [cnt[0]], am.group(1)))
        # user hook first (same result protocol as the models)
        cands = list(self.models)
        if self.on_call is not None:
            hook = self.on_call
            cands = [(re.compile(""), lambda ex_, st_, callee_, args_, dty_, m_: (lambda r_: NotImplemented if r_ is None else r_)(hook(ex_, st_, callee_, args_, dty_)))] + cands
        for pat, fn in cands:
            m = pat.search(callee)
            if m is not None:
                r = fn(self, st, callee, args, dest_ty, m)
                if r is NotImplemented:
                    continue
                if isinstance(r, tuple) and r and r[0] == "__inline__":
                    return self.push_frame(st, r[1], r[2], dest, ret_bb)
                if isinstance(r, tuple) and r and r[0] == "__fork__":
                    # list of (cond, value | PathEnd | ("__range_some__", ref))
                    feas = []
                    for c, v in r[1]:
                        c = z3.simplify(c)
                        if z3.is_false(c):
                            continue
                        if z3.is_true(c) or self.feasible(st.pc, c):
                            feas.append((c, v))
                    if not feas:
                        raise PathEnd("infeasible")
                    outs = []
                    live = [x for x in feas if not isinstance(x[1], PathEnd)]
                    for c, v in feas:
                        if isinstance(v, PathEnd):
                            s2 = st.fork()
                            s2.pc.append(c)
                            outcomes.append(Outcome(v.kind, s2, info=v.info))
                    for i, (c, v) in enumerate(live):
                        if i == len(live) - 1:
                            s2, v2 = st, v
                        else:
                            s2, v2 = copy.deepcopy((st, v))
                        s2.pc.append(c)
                        if isinstance(v2, tuple) and v2 and v2[0] == "__thunk__":
                            v2 = v2[1](self, s2, v2[2])
                        if isinstance(v2, tuple) and v2 and v2[0] == "__range_some__":
                            rng = self.deref_value(v2[1])
                            cur = rng.fields[0]
                            rng.fields[0] = I(z3.simplify(cur.bv + 1), cur.signed)
                            from .models import mk_some
                            v2 = mk_some(dest_ty, cur)
                        if isinstance(v2, tuple) and v2 and v2[0] == "__inline__":
                            self.push_frame(s2, v2[1], v2[2], dest, ret_bb)
                        else:
                            self.finish_call(s2, dest, v2, ret_bb, callee, args, log=False)
                        outs.append(s2)
                    self.stats["forks"] += max(0, len(outs) - 1)
                    if not outs:
                        return "done"
                    if len(outs) == 1 and outs[0] is st:
                        return None
                    return outs
                return self.finish_call(st, dest, r, ret_bb, callee, args, log=False)
        for pat, cbody in self.async_inline:
            if pat.search(callee):
                ty = "coroutine:" + cbody.name
                self.coroutine_bodies[ty] = cbody
                return self.finish_call(st, dest, EnumV(ty, None, 0, {}, list(args)), ret_bb, callee, args)
        body = self.resolve_callee(callee, args)
        if body is not None and fr.depth < self.max_depth:
            return self.push_frame(st, body, args, dest, ret_bb)
        # uninterpreted
        mm = self.STD_MUTATOR_RE.search(callee)
        if mm and args and isinstance(args[0], Ref):
            try:
                tgt = self.deref_value(args[0])
            except Exception:
                tgt = None
            if isinstance(tgt, (Seq, MapV, Bytes)):
                # a std method that changes a container this exploration tracks precisely, and no model for it:
                # neither "pure" nor a havoc of the whole container would be a faithful answer
                raise Unsupported("unmodelled mutation of a modelled container: %s" % callee[:100])
        res = self.fresh("ret:" + self.strip_generics(callee).split("::")[-1], dest_ty)
        frame_preserving = any(re.search(p, callee) for p in self.pure)
        if frame_preserving and self.STD_CALLEE_RE.search(callee):
            # the frame assumption is a statement about the crate's own callees; a std / core function that is handed a
            # `&mut` to a value this exploration tracks precisely may well change it (operator traits, mem::swap, ...)
            for a in args:
                if isinstance(a, Ref) and a.mut:
                    try:
                        tgt = self.get_path(a.cell, a.path)
                    except Exception:
                        tgt = None
                    if isinstance(tgt, (I, z3.BoolRef, Bytes, Seq, MapV)):
                        frame_preserving = False
                        break
        for a in args:
            if frame_preserving:
                break
            if isinstance(a, Ref) and a.mut:
                try:
                    old = self.get_path(a.cell, a.path)
                    self.set_path(a.cell, a.path, self.havoc_like(old, "havoc:" + callee.split("::")[-1]))
                except Unsupported:
                    pass
        return self.finish_call(st, dest, res, ret_bb, callee, args)

    def _closure_upvar_types(self, clo_ty):
        """types at which the closure's body reads its captures, by capture index (None where unknown)"""
        cache = self.__dict__.setdefault("_clo_upvars", {})
        if clo_ty in cache:
            return cache[clo_ty]
        key = clo_ty.strip("{}").split(" ")[0]
        c = [b for n, bl in self.bodies.items() for b in bl if b.args and key in b.args[0][1] and "{closure#" in n]
        out = None
        if len(c) == 1:
            found = {}

            def walk(x):
                if isinstance(x, tuple):
                    if len(x) >= 4 and x[0] == "field" and x[1] in (("deref", ("local", "_1")), ("local", "_1")) and isinstance(x[2], int):
                        found.setdefault(x[2], x[3])
                    for y in x:
                        walk(y)
                elif isinstance(x, (list, dict)):
                    for y in (x.values() if isinstance(x, dict) else x):
                        walk(y)
            for blk in c[0].blocks.values():
                for stt in blk.stmts:
                    walk(stt)
                walk(blk.term)
            if found:
                out = [found.get(i) for i in range(max(found) + 1)]
        cache[clo_ty] = out
        return out

    def snap_args(self, args):
        """argument list for an event: the live values (references stay references) plus `.snap`, the
        dereferenced byte strings / integers as they were AT THE TIME OF THE CALL — a loop that re-uses a
        local buffer would otherwise make an earlier event show the later content"""
        out = EventArgs(args)
        snap = []
        for a in args:
            try:
                d = self.deref_value(a) if isinstance(a, Ref) else a
            except Exception:
                d = a
            snap.append(Bytes(d.len, d.arr) if isinstance(d, Bytes) else (I(d.bv, d.signed) if isinstance(d, I) else d))
        out.snap = snap
        return out

    def closure_body(self, clo):
        """MIR body of a closure value (matched on the `{closure@file:line:col}` type text)"""
        clo = self.deref_value(clo)
        if not (isinstance(clo, Agg) and clo.kind == "closure"):
            return None
        key = clo.name.strip("{}").split(" ")[0]
        c = [b for n, bl in self.bodies.items() for b in bl if b.args and key in b.args[0][1] and "{closure#" in n]
        return c[0] if len(c) == 1 else None

    def havoc_like(self, old, hint):
        if isinstance(old, I):
            return I(z3.BitVec("%s!%d" % (hint, next(self.fresh_counter)), old.width), old.signed)
        if isinstance(old, z3.BoolRef):
            return z3.Bool("%s!%d" % (hint, next(self.fresh_counter)))
        if isinstance(old, Opaque):
            return Opaque("%s!%d" % (hint, next(self.fresh_counter)), old.ty)
        if isinstance(old, Bytes):
            n = next(self.fresh_counter)
            return Bytes(I(z3.BitVec("%s.len!%d" % (hint, n), 64)), z3.Array("%s!%d" % (hint, n), z3.BitVecSort(64), z3.BitVecSort(8)))
        return Opaque("%s!%d" % (hint, next(self.fresh_counter)), None)

    def finish_call(self, st, dest, val, ret_bb, callee, args, log=True):
        if log:
            st.events.append(("call", callee, self.snap_args(args), val))
        fr = st.frames[-1]
        if ret_bb is None:
            if re.search(r"process::exit$|process::abort$", callee):
                raise PathEnd("diverge", callee)
            # a call that cannot return: panic!/unreachable!/assert machinery printed under a short name
            raise PathEnd("panic", "call to diverging `%s` @ %s:%s" % (callee[:80], fr.body.name.split("::")[-1], fr.bb))
        if dest is not None:
            self.write_place(st, dest, val)
        fr.bb = ret_bb
        return None

    def push_frame(self, st, body, args, dest, ret_bb):
        fr = st.frames[-1]
        nf = Frame(body, fr.depth + 1)
        if len(body.args) != len(args):
            # closure call conventions: (closure_env, (args tuple))
            if len(body.args) > len(args) and len(args) == 2 and isinstance(args[1], Agg) and args[1].kind == "tuple":
                args = [args[0]] + list(args[1].fields)
            if len(body.args) != len(args):
                raise Unsupported("arity mismatch calling %s: %d vs %d" % (body.name, len(body.args), len(args)))
        for (loc, ty), v in zip(body.args, args):
            nf.locals[loc] = Cell(v)
        nf.ret_dest, nf.ret_bb = dest, ret_bb
        st.events.append(("enter", body.name, args, None))
        st.frames.append(nf)
        return None

    # which callees to inline: decided by name tables built from the crate's bodies
    def auto_resolve(self, callee, args):
        """`Type::method` / `<Type as Trait>::method` / `module::function` -> unique crate body"""
        raw = callee.strip()
        m = re.match(r"^<(.*?) as .*>::(\w+)(?:::<.*>)?$", raw) if raw.startswith("<") else None
        c = self.strip_generics(raw)
        if m:
            ty, meth = self.strip_generics(m.group(1)), m.group(2)
        else:
            segs = c.split("::")
            if len(segs) < 2:
                cands = [b for b in self._by_method.get(c, []) if "<impl at" not in b.name]
                return cands[0] if len(cands) == 1 and len(cands[0].args) == len(args) else None
            ty, meth = segs[-2], segs[-1]
        ty = re.sub(r"^&(?:mut )?", "", ty).split("::")[-1]
        mod = self.type_modules.get(ty)
        cands = [b for b in self._by_method.get(meth, []) if len(b.args) == len(args)]
        if mod is not None:
            c2 = [b for b in cands if b.name.startswith(mod + "::")]
            if len(c2) == 1:
                return c2[0]
            # several impl blocks in the same module: use the self type of the first argument
            c3 = [b for b in c2 if b.args and self.type_base(re.sub(r"^&(?:'\w+ )?(?:mut )?", "", b.args[0][1])) == ty]
            if len(c3) == 1:
                return c3[0]
            # constructors / associated functions: the impl whose return type is the type itself
            c4 = [b for b in c2 if self.type_base(b.ret or "") in (ty, "Self")]
            if len(c4) == 1:
                return c4[0]
            return None
        # free function in a module: `module::function`
        c2 = [b for b in cands if b.name == ty + "::" + meth or b.name.endswith("::" + ty + "::" + meth)]
        return c2[0] if len(c2) == 1 else None

    def resolve_callee(self, callee, args):
        if self.inline == "auto":
            c = callee.strip()
            for pat in self.no_inline:
                if re.search(pat, c):
                    return None
            return self.auto_resolve(c, args)
        if self.inline is None:
            return None
        c = callee.strip()
        for pat in self.no_inline:
            if re.search(pat, c):
                return None
        for pat, target in self.inline:
            if re.search(pat, c):
                if isinstance(target, MIR.Body):
                    return target
                bl = [b for n, bs in self.bodies.items() for b in bs if re.search(target, n)]
                if len(bl) == 1:
                    return bl[0]
                if len(bl) > 1:
                    # disambiguate by arity
                    bl2 = [b for b in bl if len(b.args) == len(args)]
                    if len(bl2) == 1:
                        return bl2[0]
                raise Unsupported("inline target %s ambiguous/missing for %s (%d candidates)" % (target, c, len(bl)))
        return None
