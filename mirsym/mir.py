"""Parser for rustc's `-Zunpretty=mir` text (nightly 1.97) — just enough structure for mirsym.

A Body has: name, args [(local, type)], ret type, locals {local: type}, debug {local: name},
blocks {bb: Block(stmts, term)}.  Statements and terminators are small tuples, places and
operands are parsed into trees.
"""
import re


class ParseError(Exception):
    pass


# ------------------------------------------------------------------ balanced scanning helpers
OPEN = "([{<"
CLOSE = ")]}>"


def split_top(s, sep=","):
    """split on `sep` at nesting depth 0 (parens, brackets, braces, angle brackets; `->`, `=>` and
    comparison-free contexts only; string literals skipped)."""
    out, depth, cur, i, n = [], 0, [], 0, len(s)
    while i < n:
        c = s[i]
        if c == '"':
            j = i + 1
            while j < n and s[j] != '"':
                j += 2 if s[j] == "\\" else 1
            cur.append(s[i:j + 1])
            i = j + 1
            continue
        if c == "'" and i + 2 < n and (s[i + 2] == "'" or (s[i + 1] == "\\" and s.find("'", i + 2) != -1 and s.find("'", i + 2) - i <= 6)):
            j = s.find("'", i + 2) if s[i + 1] == "\\" else i + 2
            cur.append(s[i:j + 1])
            i = j + 1
            continue
        if c in "([{":
            depth += 1
        elif c in ")]}":
            depth -= 1
        elif c == "<":
            depth += 1
        elif c == ">":
            if i > 0 and s[i - 1] in "-=":
                pass
            else:
                depth -= 1
        if c == sep and depth == 0:
            out.append("".join(cur).strip())
            cur = []
        else:
            cur.append(c)
        i += 1
    last = "".join(cur).strip()
    if last:
        out.append(last)
    return out


def match_close(s, i):
    """s[i] is an opening paren/bracket/brace; return index of its match (strings skipped)."""
    o = s[i]
    c = {"(": ")", "[": "]", "{": "}"}[o]
    depth, n = 0, len(s)
    while i < n:
        ch = s[i]
        if ch == '"':
            j = i + 1
            while j < n and s[j] != '"':
                j += 2 if s[j] == "\\" else 1
            i = j + 1
            continue
        if ch == o:
            depth += 1
        elif ch == c:
            depth -= 1
            if depth == 0:
                return i
        i += 1
    raise ParseError("unbalanced: " + s[:80])


def match_open_backwards(s, j):
    """s[j] is ')' ; return index of its matching '(' scanning backwards (strings not handled:
    call argument lists in MIR do not end inside string literals)."""
    depth = 0
    i = j
    while i >= 0:
        ch = s[i]
        if ch == ")":
            depth += 1
        elif ch == "(":
            depth -= 1
            if depth == 0:
                return i
        i -= 1
    raise ParseError("unbalanced backwards: " + s[:80])


# ------------------------------------------------------------------ places and operands
# place  := ('local', '_N') | ('deref', p) | ('field', p, idx, type) | ('downcast', p, variant)
#         | ('index', p, local) | ('constindex', p, text)
def parse_place(s, i=0):
    s_len = len(s)
    if s[i] == "(":
        if s[i + 1] == "*":
            p, j = parse_place(s, i + 2)
            assert s[j] == ")", ("deref close", s, j)
            p = ("deref", p)
            j += 1
        else:
            p, j = parse_place(s, i + 1)
            if s.startswith(" as ", j):
                k = s.index(")", j)
                p = ("downcast", p, s[j + 4:k].strip())
                j = k + 1
            elif s[j] == ".":
                m = re.match(r"\.(\d+): ", s[j:])
                if not m:
                    raise ParseError("field: " + s[j:j + 40])
                k = match_close(s, i)
                p = ("field", p, int(m.group(1)), s[j + m.end():k])
                j = k + 1
            elif s[j] == ")":
                j += 1
            else:
                raise ParseError("place: " + s[i:i + 60])
    elif s[i] == "_":
        m = re.match(r"_\d+", s[i:])
        if not m:
            raise ParseError("local: " + s[i:i + 40])
        p = ("local", m.group(0))
        j = i + m.end()
    else:
        raise ParseError("place start: " + s[i:i + 60])
    # suffixes
    while j < s_len:
        if s[j] == "[":
            k = match_close(s, j)
            inner = s[j + 1:k]
            if re.fullmatch(r"_\d+", inner):
                p = ("index", p, inner)
            else:
                p = ("constindex", p, inner)
            j = k + 1
        elif s[j] == "." and re.match(r"\.\d+(?!: )", s[j:]) and not re.match(r"\.\d+: ", s[j:]):
            m = re.match(r"\.(\d+)", s[j:])
            p = ("field", p, int(m.group(1)), None)
            j += m.end()
        else:
            break
    return p, j


def parse_operand(s):
    s = s.strip()
    if s.startswith("no_retag "):
        s = s[len("no_retag "):]
    if s.startswith("copy "):
        p, j = parse_place(s, 5)
        return ("copy", p)
    if s.startswith("move "):
        p, j = parse_place(s, 5)
        return ("move", p)
    if s.startswith("const "):
        return ("const", s[6:].strip())
    # bare place (appears in a few rvalue positions)
    if s.startswith("_") or s.startswith("("):
        try:
            p, j = parse_place(s, 0)
            if j == len(s):
                return ("copy", p)
        except (ParseError, AssertionError, ValueError, AttributeError):
            pass
    return ("raw", s)


BINOPS = {"Add", "Sub", "Mul", "Div", "Rem", "BitXor", "BitAnd", "BitOr", "Shl", "Shr", "Eq", "Lt", "Le", "Ne", "Ge", "Gt",
          "AddWithOverflow", "SubWithOverflow", "MulWithOverflow", "AddUnchecked", "SubUnchecked", "MulUnchecked",
          "ShlUnchecked", "ShrUnchecked", "Offset", "Cmp"}
UNOPS = {"Not", "Neg", "PtrMetadata"}


def parse_rvalue(s):
    s = s.strip()
    m = re.match(r"^(&raw const |&raw mut |&mut |&fake shallow |&fake |&)(.*)$", s)
    if m and not s.startswith("&'"):
        kind = m.group(1).strip()
        try:
            p, j = parse_place(m.group(2).strip(), 0)
            return ("ref", kind, p)
        except (ParseError, AssertionError, ValueError):
            return ("raw", s)
    m = re.match(r"^(\w+)\((.*)\)$", s)
    if m and m.group(1) in BINOPS:
        a = split_top(m.group(2))
        if len(a) == 2:
            return ("binop", m.group(1), parse_operand(a[0]), parse_operand(a[1]))
    if m and m.group(1) in UNOPS:
        return ("unop", m.group(1), parse_operand(m.group(2)))
    if m and m.group(1) == "discriminant":
        p, j = parse_place(m.group(2), 0)
        return ("discriminant", p)
    if m and m.group(1) in ("Len", "CopyForDeref"):
        p, j = parse_place(m.group(2), 0)
        return ("len", p) if m.group(1) == "Len" else ("use", ("copy", p))
    # cast: OPERAND as TYPE (Kind)
    m = re.match(r"^((?:copy|move|const) .*) as (.*) \((\w+(?:\([^)]*\))?(?:, \w+)?)\)$", s)
    if m:
        return ("cast", parse_operand(m.group(1)), m.group(2).strip(), m.group(3))
    if s.startswith(("copy ", "move ", "const ", "no_retag ")):
        return ("use", parse_operand(s))
    # tuple
    if s.startswith("(") and s.endswith(")"):
        k = match_close(s, 0)
        if k == len(s) - 1:
            items = split_top(s[1:-1])
            return ("tuple", [parse_operand(x) for x in items])
    # array
    if s.startswith("[") and s.endswith("]"):
        inner = s[1:-1]
        parts = split_top(inner, ";")
        if len(parts) == 2:
            return ("repeat", parse_operand(parts[0]), parts[1].strip())
        return ("array", [parse_operand(x) for x in split_top(inner)])
    # struct aggregate  Path { f: op, .. }   (also closures `{closure@..}` handled below)
    if s.endswith("}") and " { " in s and not s.startswith("{"):
        k = s.index(" { ")
        name = s[:k].strip()
        inner = s[k + 3:-1].strip()
        fields = []
        for part in split_top(inner):
            if not part:
                continue
            fm = re.match(r"^(\w+): (.*)$", part, re.S)
            if not fm:
                return ("raw", s)
            fields.append((fm.group(1), parse_operand(fm.group(2))))
        return ("struct", name, fields)
    # enum variant with payload  Path::Variant(ops)
    if s.endswith(")") and not s.startswith("{"):
        j = len(s) - 1
        i = match_open_backwards(s, j)
        head = s[:i]
        if head and re.search(r"[\w>]$", head):
            ops = [parse_operand(x) for x in split_top(s[i + 1:j])]
            return ("variant", head.strip(), ops)
    if s.startswith("{closure@") or s.startswith("{coroutine@") or s.startswith("{async "):
        k = match_close(s, 0)
        rest = s[k + 1:].strip()
        ops = []
        if rest.startswith("("):
            ops = [parse_operand(x) for x in split_top(rest[1:-1])]
        elif rest.startswith("{") and rest.endswith("}"):
            for part in split_top(rest[1:-1].strip()):
                fm = re.match(r"^(\w+): (.*)$", part.strip(), re.S)
                if fm:
                    ops.append(parse_operand(fm.group(2)))
        return ("closure", s[:k + 1], ops)
    # unit variant / unit struct path
    if re.fullmatch(r"[\w:<>, '&\[\];\(\)\*]+", s):
        return ("variant", s, [])
    return ("raw", s)


# ------------------------------------------------------------------ statements / terminators
class Block:
    __slots__ = ("name", "stmts", "term", "cleanup")

    def __init__(self, name, cleanup):
        self.name, self.stmts, self.term, self.cleanup = name, [], None, cleanup


class Body:
    def __init__(self, name, header):
        self.name = name
        self.header = header
        self.args = []
        self.ret = None
        self.locals = {}
        self.debug = {}
        self.blocks = {}
        self.line = 0
        self.span = ""
        self.simple = None


TARGETS_RE = re.compile(r" -> (\[.*\]|unwind .*|bb\d+|!)\s*;?$")


def parse_targets(t):
    """'[return: bb1, unwind continue]' -> dict"""
    d = {}
    t = t.strip().rstrip(";")
    if t.startswith("["):
        for part in split_top(t[1:-1]):
            k, _, v = part.partition(": ")
            if not _:
                # 'unwind continue'
                kk = part.split(" ")
                d[kk[0]] = " ".join(kk[1:])
            else:
                d[k.strip()] = v.strip()
    elif t.startswith("unwind"):
        d["unwind"] = t[len("unwind"):].strip()
    elif t.startswith("bb"):
        d["goto"] = t
    return d


def parse_terminator(line):
    s = line.strip().rstrip(";")
    if s.startswith("goto -> "):
        return ("goto", s[8:].strip())
    if s == "return":
        return ("return",)
    if s in ("unreachable", "resume", "abort", "coroutine_drop", "terminate(abi)", "terminate(cleanup)"):
        return ("unreachable",) if s == "unreachable" else ("resume",)
    if s.startswith("switchInt("):
        k = match_close(s, len("switchInt"))
        op = parse_operand(s[len("switchInt("):k])
        tgt = s[k + 1:].strip()
        assert tgt.startswith("-> ["), s
        arms = []
        for part in split_top(tgt[4:-1]):
            a, _, b = part.partition(": ")
            arms.append((a.strip(), b.strip()))
        return ("switch", op, arms)
    if s.startswith("drop("):
        k = match_close(s, 4)
        p, _ = parse_place(s[5:k], 0)
        return ("drop", p, parse_targets(s[k + 1:].strip()[3:]))
    if s.startswith("assert("):
        k = match_close(s, 6)
        inner = split_top(s[7:k])
        cond = inner[0].strip()
        neg = cond.startswith("!")
        if neg:
            cond = cond[1:]
        return ("assert", neg, parse_operand(cond), inner[1] if len(inner) > 1 else "", parse_targets(s[k + 1:].strip()[3:]))
    if s.startswith(("falseEdge", "falseUnwind")):
        m = re.search(r"\[real: (bb\d+)", s)
        return ("goto", m.group(1))
    if s.startswith("yield("):
        return ("yield", s)
    # call:  [PLACE = ]CALLEE(ARGS) -> targets
    m = TARGETS_RE.search(s)
    if m:
        head = s[:m.start()]
        targets = parse_targets(m.group(1))
    else:
        head, targets = s, {}
    dest = None
    dm = re.match(r"^((?:_\d+|\(.*?\)(?:\[[^\]]*\])?)) = (.*)$", head, re.S)
    # the destination place must parse completely
    if dm:
        try:
            p, j = parse_place(head, 0)
            if head[j:j + 3] == " = ":
                dest = p
                head = head[j + 3:]
        except (ParseError, AssertionError, ValueError):
            pass
    head = head.strip()
    if not head.endswith(")"):
        return ("unknown", line.strip())
    j = len(head) - 1
    i = match_open_backwards(head, j)
    callee = head[:i].strip()
    args = [parse_operand(x) for x in split_top(head[i + 1:j])]
    return ("call", dest, callee, args, targets)


def parse_statement(line):
    s = line.strip().rstrip(";")
    if s.startswith(("StorageLive", "StorageDead", "nop", "Retag", "PlaceMention", "FakeRead", "AscribeUserType", "Coverage", "ConstEvalCounter", "BackwardIncompatibleDropHint")):
        return None
    if s.startswith("Deinit("):
        return None
    if s.startswith("assume("):
        return ("assume", parse_operand(s[7:-1]))
    if s.startswith("discriminant("):
        k = match_close(s, len("discriminant"))
        p, _ = parse_place(s[len("discriminant("):k], 0)
        return ("setdiscr", p, s[k + 1:].strip(" ="))
    if s.startswith(("copy_nonoverlapping", "intrinsic")):
        return ("unknown_stmt", s)
    p, j = parse_place(s, 0)
    if s[j:j + 3] != " = ":
        raise ParseError("statement: " + s[:100])
    return ("assign", p, parse_rvalue(s[j + 3:]))


HEADER_RE = re.compile(r"^(?:fn |const |static (?:mut )?)")


def parse_mir(path, want=None):
    """Parse all bodies (or only those whose header contains one of the `want` substrings)."""
    bodies = {}
    consts = {}
    cur = None
    blk = None
    lines = open(path, errors="replace").read().split("\n")
    n = len(lines)
    i = 0
    while i < n:
        line = lines[i]
        if cur is None:
            sm = re.match(r"^const (.*?): (\S+) = const (.*);$", line)
            if sm and "<impl at" not in sm.group(1):
                b = Body(sm.group(1), line)
                b.ret = sm.group(2)
                b.simple = sm.group(3)
                consts[sm.group(1)] = b
                i += 1
                continue
            if HEADER_RE.match(line) and line.rstrip().endswith("{"):
                header = line.rstrip()[:-1].strip()
                # multi-line headers do not occur in this dump; keep simple
                take = want is None or any(w in header for w in want) or not header.startswith("fn ")
                if take:
                    cur = _start_body(header)
                    cur.line = i + 1
                else:
                    cur = False
            i += 1
            continue
        if line == "}":
            if cur:
                if cur.header.startswith("fn "):
                    bodies.setdefault(cur.name, []).append(cur)
                else:
                    consts[cur.name] = cur
            cur, blk = None, None
            i += 1
            continue
        if cur is False:
            i += 1
            continue
        t = line.strip()
        if not t or t.startswith("//"):
            i += 1
            continue
        m = re.match(r"^let (?:mut )?(_\d+): (.*);$", t)
        if m:
            cur.locals[m.group(1)] = m.group(2)
        elif t.startswith("debug "):
            m = re.match(r"^debug (\S+) => (.*);$", t)
            if m and re.fullmatch(r"_\d+", m.group(2)):
                cur.debug[m.group(2)] = m.group(1)
        elif t.startswith("scope ") or t == "}":
            if t == "}" and blk is not None and line.startswith("    }"):
                blk = None
        elif re.match(r"^bb\d+(?: \(cleanup\))?: \{$", t):
            name = t.split(":")[0].split(" ")[0]
            blk = Block(name, "(cleanup)" in t)
            cur.blocks[name] = blk
        elif blk is not None:
            # a statement may span several lines (string constants with newlines): join until ';'
            full = t
            while not _complete(full) and i + 1 < n:
                i += 1
                full += "\n" + lines[i].strip()
            try:
                if _is_terminator(full):
                    blk.term = parse_terminator(full)
                else:
                    st = parse_statement(full)
                    if st is not None:
                        blk.stmts.append(st)
            except (ParseError, AssertionError, ValueError, IndexError, AttributeError) as e:
                blk.stmts.append(("unparsed", full, str(e)))
        i += 1
    return bodies, consts


def _complete(s):
    return s.endswith(";") or s.endswith("{")


def _is_terminator(s):
    t = s.strip()
    if t.startswith(("goto ->", "switchInt(", "return;", "unreachable;", "resume;", "abort;", "drop(", "assert(", "falseEdge", "falseUnwind", "yield(", "coroutine_drop", "terminate(")):
        return True
    if TARGETS_RE.search(t.rstrip(";")) and not t.startswith(("goto", "switchInt")):
        return True
    return False


def _start_body(header):
    if header.startswith("fn "):
        h = header[3:]
        # name up to the '(' that opens the argument list: last top-level '(' before ' -> ' at depth 0
        # find arg list: scan for '(' at angle-depth 0 preceded by identifier char / '}' / '>'
        depth = 0
        pos = None
        idx = 0
        while idx < len(h):
            c = h[idx]
            if c == "<":
                depth += 1
            elif c == ">" and h[idx - 1] not in "-=":
                depth -= 1
            elif c == "(" and depth == 0:
                pos = idx
                break
            idx += 1
        name = h[:pos].strip()
        k = match_close(h, pos)
        b = Body(name, header)
        for a in split_top(h[pos + 1:k]):
            am = re.match(r"^(_\d+): (.*)$", a, re.S)
            if am:
                b.args.append((am.group(1), am.group(2)))
                b.locals[am.group(1)] = am.group(2)
        rest = h[k + 1:].strip()
        b.ret = rest[3:].strip() if rest.startswith("->") else "()"
        b.locals["_0"] = b.ret
        return b
    # const NAME: TYPE =
    impls = []

    def hide(mm):
        impls.append(mm.group(0))
        return "\x00%d\x00" % (len(impls) - 1)

    hidden = re.sub(r"<impl at [^>]*>", hide, header)
    m = re.match(r"^(?:const|static(?: mut)?) (.*?): (.*) =$", hidden, re.S)
    restore = lambda t: re.sub(r"\x00(\d+)\x00", lambda mm: impls[int(mm.group(1))], t)
    name = restore(m.group(1)) if m else header
    b = Body(name, header)
    b.ret = restore(m.group(2)) if m else None
    return b
