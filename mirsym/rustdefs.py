"""Struct field order and enum discriminants read from the crate's Rust sources (MIR refers to
fields by index and to variants by name; the definitions are not part of the MIR dump)."""
import re, os, glob


def strip_comments(src):
    src = re.sub(r"//[^\n]*", "", src)
    return re.sub(r"/\*.*?\*/", "", src, flags=re.S)


def parse_defs(root="/repo/saito-core/src"):
    structs, enums = {}, {}
    global TYPE_MODULES
    TYPE_MODULES = {}
    for path in glob.glob(os.path.join(root, "**", "*.rs"), recursive=True):
        if "/util/test/" in path:
            continue
        src = strip_attrs(strip_comments(open(path, errors="replace").read()))
        for m in re.finditer(r"\b(?:pub(?:\([^)]*\))? )?struct (\w+)(?:<[^>]*>)?\s*\{", src):
            body, _ = _braced(src, m.end() - 1)
            fields = []
            for part in _split_top(body):
                part = strip_attrs(part).strip()
                fm = re.match(r"^(?:pub(?:\([^)]*\))? )?(\w+)\s*:\s*(.*)$", part, re.S)
                if fm:
                    fields.append((fm.group(1), " ".join(fm.group(2).split())))
            structs.setdefault(m.group(1), fields)
            TYPE_MODULES.setdefault(m.group(1), os.path.basename(path)[:-3])
        for m in re.finditer(r"\b(?:pub(?:\([^)]*\))? )?enum (\w+)(?:<[^>]*>)?\s*\{", src):
            body, _ = _braced(src, m.end() - 1)
            variants, nxt = [], 0
            for part in _split_top(body):
                part = strip_attrs(part).strip()
                vm = re.match(r"^(\w+)\s*(\(.*\)|\{.*\})?\s*(?:=\s*(-?\d+))?$", part, re.S)
                if vm:
                    if vm.group(3) is not None:
                        nxt = int(vm.group(3))
                    variants.append((vm.group(1), nxt))
                    nxt += 1
            enums.setdefault(m.group(1), variants)
            TYPE_MODULES.setdefault(m.group(1), os.path.basename(path)[:-3])
    return structs, enums


def strip_attrs(s):
    out, i = [], 0
    while i < len(s):
        if s[i] == "#" and i + 1 < len(s) and s[i + 1] == "[":
            depth, j = 0, i + 1
            while j < len(s):
                if s[j] == "[":
                    depth += 1
                elif s[j] == "]":
                    depth -= 1
                    if depth == 0:
                        break
                j += 1
            i = j + 1
            continue
        out.append(s[i])
        i += 1
    return "".join(out)


def _braced(s, i):
    depth = 0
    j = i
    while j < len(s):
        if s[j] == "{":
            depth += 1
        elif s[j] == "}":
            depth -= 1
            if depth == 0:
                return s[i + 1:j], j
        j += 1
    return s[i + 1:], len(s)


def _split_top(s):
    out, depth, cur = [], 0, []
    for i, c in enumerate(s):
        if c in "([{<":
            depth += 1
        elif c in ")]}":
            depth -= 1
        elif c == ">" and s[i - 1] not in "-=":
            depth -= 1
        if c == "," and depth == 0:
            out.append("".join(cur))
            cur = []
        else:
            cur.append(c)
    if "".join(cur).strip():
        out.append("".join(cur))
    return out

TYPE_MODULES = {}
