"""C03 / C04 — the wind/unwind dispatcher: Blockchain::validate with wind_chain and unwind_chain
inlined, explored as a bounded transition system (engine M).

new chain: n blocks (tip first, as add_block builds it), old chain: k blocks.  One symbolic
validity bit per new-chain block (re-validating a block gives the same answer); every other
callee is uninterpreted and only logged.  The event log of a path is the sequence of
BlockRing::on_chain_reorganization(id, hash, lc) calls = the wind (lc=true) / unwind (lc=false)
steps actually performed."""
import re
import z3
from . import sym as S, lib as L
from .models import value_eq


def _setup(ctx, n_new, n_old, bound):
    ex = ctx.executor(loop_bound=bound, max_paths=4000, max_depth=20)
    wc = ctx.body(r"blockchain::<impl at [^>]*>::wind_chain::\{closure#0\}$")
    uc = ctx.body(r"blockchain::<impl at [^>]*>::unwind_chain::\{closure#0\}$")
    # uninterpreted callees (block upgrade, wallet / utxoset / storage updates) are assumed not to
    # change block ids, hashes, checkpoint flags or the chain vectors: frame-preserving
    ex.pure = [r".*"]
    ex.async_inline = [(re.compile(r"Blockchain::wind_chain$"), wc), (re.compile(r"Blockchain::unwind_chain$"), uc)]
    n = n_new + n_old
    hashes = []
    for i in range(n):
        arr = z3.K(z3.BitVecSort(64), z3.BitVecVal(i + 1, 8))
        hashes.append(S.Bytes(S.const_int(32, "usize"), arr))
    valid = [ex.fresh_value("bool", "valid_new%d" % i) for i in range(n_new)]
    blocks = []
    for i in range(n):
        b = ctx.mk_struct(ex, "Block", "blk%d" % i, id=S.const_int(100 + i, "u64"), hash=hashes[i], has_checkpoint=z3.BoolVal(False))
        blocks.append(b)
    bmap = S.MapV("blocks", [[z3.BoolVal(True), hashes[i], blocks[i]] for i in range(n)])
    chain = S.Opaque("blockchain", "Blockchain")
    chain.children[("f", ctx.field_index("Blockchain", "blocks"))] = bmap

    def hook(ex_, st, callee, args, dty):
        if re.search(r"(?:^|::)Block::validate$", callee):
            blk = ex_.deref_value(args[0])
            bid = S.as_int(blk.fields[ctx.field_index("Block", "id")]) - 100
            st.events.append(("validate", bid, [], None))
            flag = valid[bid] if bid < n_new else z3.BoolVal(True)  # old-chain blocks validated before
            return S.Agg("struct", "ReadyFuture", [flag])
        if re.search(r"Blockchain::is_golden_ticket_count_valid$", callee):
            return z3.BoolVal(True)
        if re.search(r"::get_consensus_config$", callee):
            from .models import mk_some
            return mk_some(dty, S.Ref(S.Cell(S.Opaque("consensus_config", "ConsensusConfig"))))
        if re.search(r"BlockRing::on_chain_reorganization$", callee):
            bid = S.as_int(args[1]) - 100
            lc = args[3]
            st.events.append(("reorg", bid, [], lc))
            return z3.BoolVal(True)
        return None
    ex.on_call = hook
    new_chain = S.Seq(hashes[:n_new])
    old_chain = S.Seq(hashes[n_new:])
    args = [S.Ref(S.Cell(chain), (), True), S.Ref(S.Cell(new_chain)), S.Ref(S.Cell(old_chain)), S.Ref(S.Cell(S.Opaque("storage", "Storage"))), S.Ref(S.Cell(S.Opaque("cfg", "dyn Configuration")))]
    return ex, args, valid


def _steps(o):
    """[(block index, 'W'|'U')] in execution order; None if an lc flag is not concrete"""
    out = []
    for e in o.events:
        if e[0] == "reorg":
            lc = z3.simplify(e[3]) if isinstance(e[3], z3.ExprRef) else e[3]
            if z3.is_true(lc):
                out.append((e[1], "W"))
            elif z3.is_false(lc):
                out.append((e[1], "U"))
            else:
                return None
    return out


def _explore(ctx, v, n_new, n_old):
    bound = 2 * (n_new + n_old) + 2
    ex, args, valid = _setup(ctx, n_new, n_old, bound)
    outs, cell = L.run_async(ctx, ex, r"blockchain::<impl at [^>]*>::validate", args)
    v.paths += len(outs)
    return ex, outs, valid, bound


def _valid_pattern(ex, o, valid):
    """validity of each new-chain block as forced by the path condition: T / F / * (not examined)"""
    if not ex.feasible(o.pc):
        return None
    out = []
    for b in valid:
        can_t = ex.feasible(o.pc, b)
        can_f = ex.feasible(o.pc, z3.Not(b))
        out.append("*" if (can_t and can_f) else ("T" if can_t else "F"))
    return "".join(out)


def c04_machine(ctx, v, pid="C04", obligation="c04_machine"):
    """for |new| in 1..=3 and |old| in 0..=2 and every validity pattern of the new chain:
    (i) the dispatcher finishes within 2(|new|+|old|)+2 wind/unwind steps (no livelock);
    (ii) on success: old chain unwound tip-first once each, then new chain wound from the fork
         point to the tip once each, nothing else;
    (iii) on failure: every wind of a new-chain block is matched by a later unwind, and the old
         chain ends up wound again in fork-to-tip order (state restored);
    (iv) no out-of-range index / unwrap panic."""
    from .run import known_classes
    known = known_classes(pid, obligation)
    # Blockchain::validate is only entered with a strictly longer new chain (is_new_chain_the_longest_chain)
    sizes = [(n, k) for n in (1, 2, 3) for k in (0, 1, 2) if n > k] if ctx.tier == "quick" else [(n, k) for n in (1, 2, 3, 4) for k in (0, 1, 2, 3) if n > k]
    for n_new, n_old in sizes:
        ex, outs, valid, bound = _explore(ctx, v, n_new, n_old)
        ok_cases = 0
        for o in outs:
            if o.kind in ("unsupported", "path-limit"):
                return v.undecided("|new|=%d |old|=%d: %s %s" % (n_new, n_old, o.kind, o.info))
            if o.kind in ("infeasible", "unwind", "diverge"):
                continue
            pat = _valid_pattern(ex, o, valid)
            if pat is None:
                continue
            v.queries += 1
            cls = None
            if o.kind == "unwound":
                cls = "livelock |new|=%d |old|=%d validity=%s" % (n_new, n_old, pat)
                what = "block processing does not finish within %d wind/unwind rounds (the dispatcher keeps re-winding the same blocks)" % bound
            elif o.kind == "panic":
                cls = "panic |new|=%d |old|=%d validity=%s" % (n_new, n_old, pat)
                what = "panic: %s" % o.info
            elif o.kind == "return":
                steps = _steps(o)
                val = L.ready_value(ex, o)
                okflag = val.fields[0] if isinstance(val, S.Agg) else None
                okc = z3.simplify(okflag) if okflag is not None else None
                if steps is None or okc is None or not (z3.is_true(okc) or z3.is_false(okc)):
                    return v.undecided("|new|=%d |old|=%d: result or step flags not concrete" % (n_new, n_old))
                if z3.is_true(okc):
                    want = [(n_new + j, "U") for j in range(n_old)] + [(i, "W") for i in range(n_new - 1, -1, -1)]
                    if steps != want or "F" in pat:
                        cls = "bad-success |new|=%d |old|=%d validity=%s" % (n_new, n_old, pat)
                        what = "success with wind/unwind steps %s (expected %s)" % (steps, want)
                else:
                    # net effect must be zero
                    state = dict((n_new + j, True) for j in range(n_old))
                    state.update(dict((i, False) for i in range(n_new)))
                    for b, k in steps:
                        state[b] = (k == "W")
                    restored = all(state[n_new + j] for j in range(n_old)) and not any(state[i] for i in range(n_new))
                    if not restored or "F" not in pat:
                        cls = "bad-failure |new|=%d |old|=%d validity=%s" % (n_new, n_old, pat)
                        what = "failure leaves a trace: on-chain flags after the call %s, steps %s" % (sorted(state.items()), steps)
            if cls is None:
                ok_cases += 1
                continue
            if cls in known:
                v.notes.append("known:" + cls)
                continue
            v.notes.append("unlisted:" + cls)
            v.fail("%s — %s" % (cls, what), dict(cls=cls, steps=_steps(o) if o.kind == "return" else [e[:2] for e in o.events if e[0] in ("reorg", "validate")][:40]))
        v.covers_total += 1
        v.covers_sat += 1 if ok_cases else 0


def c04_index_cleanup(ctx, v):
    """a rejected block leaves no trace in the chain index: BlockRing::delete_block (called by
    add_block_failure) removes exactly the rejected (id, hash) — see c03_m_blockring_delete."""
    from . import obl_c03
    obl_c03.c03_m_blockring_delete(ctx, v)


def c04_rejected_block_writes_nothing(ctx, v):
    """Blockchain::add_block, every path that hands the block back before the fork-choice step
    (metadata generation failed, block already stored, parent missing -> FailedButRetry in its
    three forms, too old -> FailedNotValid): the chain index and the block store are not written
    on that path — no BlockRing::add_block / on_chain_reorganization / delete_block, no insertion
    into or removal from `blocks`.  Real MIR of the body; the chain state's observers (tip,
    parent stored, already stored, loading completed...) are symbolic inputs."""
    from . import addblock_explore as AB
    r = AB.explore(ctx)
    ex = r["ex"]
    v.paths += len(r["outs"])
    n = 0
    for o in r["outs"]:
        if o.kind in ("unsupported", "path-limit"):
            return v.undecided("%s %s" % (o.kind, o.info))
        if o.kind != "return":
            continue
        res = L.ready_value(ex, o)
        w = AB.writes(o)
        v.queries += 1
        if w:
            rr, m = ex.model_for(o.pc)
            if rr == z3.sat:
                variant = getattr(res, "variant", None)
                v.fail("add_block hands the block back (%s) after writing to the chain index / block store: %s" % (variant or "early return", ", ".join(e[1].split("::")[-1] for e in w)),
                       dict(path=L.trace_text(o, 12), parent_stored=str(m.eval(r["parent_known"], model_completion=True)), block_id=m.eval(r["b_id"].bv, model_completion=True).as_long(),
                            tip_id=m.eval(r["tip_id"].bv, model_completion=True).as_long()))
            elif rr != z3.unsat:
                return v.undecided("solver: no verdict")
            continue
        n += 1
    if not n:
        return v.undecided("no early-return path found")
    v.covers_total += 1
    v.covers_sat += 1


def c04_wind_failure_request(ctx, v):
    """Blockchain::wind_chain, one step: the block at current_wind_index of a candidate chain of
    2..=3 (thorough 4) blocks fails validation after the blocks behind it (indices above it) were
    already wound.  The step must ask for exactly those blocks to be unwound — Unwind(0, true,
    new_chain[current_wind_index + 1 ..], _) — in that order, and never for the failing block
    itself, which was never applied to the ledger (unwinding it would make its inputs spendable
    again)."""
    from .models import as_enum
    sizes = (2, 3) if ctx.tier == "quick" else (2, 3, 4)
    ok = 0
    for n_new in sizes:
        for idx in range(0, n_new - 1):
            ex, args, valid = _setup(ctx, n_new, 1, 2 * n_new + 6)
            chain_ref, new_ref, old_ref, storage, cfg = args
            st = S.State()
            st.pc.append(z3.Not(valid[idx]))
            body, co = L.coroutine(ctx, ex, r"blockchain::<impl at [^>]*>::wind_chain", [chain_ref, new_ref, old_ref, S.const_int(idx, "usize"), z3.BoolVal(False), storage, cfg])
            outs = ex.run(body, [S.Ref(S.Cell(co), (), True), S.Opaque("cx", "Context")], st)
            v.paths += len(outs)
            new_items = ex.deref_value(new_ref).items
            want = new_items[idx + 1:]
            for o in outs:
                if o.kind in ("unsupported", "unwound", "path-limit"):
                    return v.undecided("|new|=%d index=%d: %s %s" % (n_new, idx, o.kind, o.info))
                if o.kind == "panic":
                    L.report_panic(v, ex, o, "|new|=%d index=%d: wind_chain panics: %s" % (n_new, idx, o.info))
                    continue
                if o.kind != "return" or not ex.feasible(o.pc):
                    continue
                res = L.ready_value(ex, o)
                v.queries += 1
                if not (isinstance(res, S.EnumV) and res.variant == "Unwind"):
                    v.fail("|new|=%d index=%d: a validation failure after earlier blocks were wound does not ask for them to be unwound (%s)" % (n_new, idx, getattr(res, "variant", res)))
                    continue
                f = res.payload["Unwind"].fields
                lst = ex.deref_value(f[2]) if isinstance(f[2], S.Ref) else f[2]
                if not isinstance(lst, S.Seq):
                    return v.undecided("unwind list is not a concrete-length sequence")
                same = len(lst.items) == len(want) and all(not ex.feasible(o.pc, z3.Not(value_eq(ex, a, b))) for a, b in zip(lst.items, want))
                start_ok = isinstance(f[0], S.I) and not ex.feasible(o.pc, f[0].bv != 0)
                if not same or not start_ok:
                    v.fail("|new|=%d index=%d: the unwind request lists %d block(s) starting at position %s; the blocks actually wound are the %d behind the failing one" %
                           (n_new, idx, len(lst.items), "0" if start_ok else "?", len(want)))
                    continue
                ok += 1
    v.covers_total += 1
    v.covers_sat += 1 if ok else 0


def c04_ringitem_delete(ctx, v):
    """refusing a block must not touch the chain-index entries of other blocks in the same slot —
    same id, other hash, included (same obligation as C03 c03_m_ringitem_delete)."""
    from . import obl_c03
    obl_c03.c03_m_ringitem_delete(ctx, v)


def c04_failure_cleanup_spares_ledger(ctx, v):
    """Blockchain::add_block_failure — the only clean-up run when an offered block is refused. A
    refused block was never applied to the ledger, so its inputs are still live outputs of other
    blocks: on every path the clean-up hands the spendable set (`utxoset`) to no callee mutably
    (no Block::delete / on_chain_reorganization / slip deletion on the refused block) and takes no
    write lock on the wallet; it does remove the block from the chain index
    (BlockRing::delete_block with the block's own id and hash).  Real MIR of the coroutine; the
    stored block is an arbitrary block; callees are not entered."""
    ex = ctx.executor(loop_bound=3, inline="auto", max_paths=2000,
                      no_inline=[r"Block::", r"BlockRing::", r"Mempool::", r"Wallet::", r"Slip::", r"Transaction::", r"add_block_transactions_back", r"fmt", r"to_hex"])
    ex.pure = [r".*"]
    block = ctx.mk_struct(ex, "Block", "refused")
    from .models import mk_some
    utx_i = ctx.field_index("Blockchain", "utxoset")
    wl_i = ctx.field_index("Blockchain", "wallet_lock")
    chain = ctx.mk_struct(ex, "Blockchain", "blockchain", utxoset=S.MapV("utxoset", None) if hasattr(S, "MapV") else S.Opaque("utxoset", "UtxoSet"))
    ccell = S.Cell(chain)

    def hook(ex_, st, callee, args, dty):
        if re.search(r"(?:AHashMap|HashMap)::<\[u8; 32\], Block[^>]*>::remove::", callee):
            st.events.append(("call", callee, args, None))
            return mk_some(dty, block)
        return None
    ex.on_call = hook
    pool = ctx.mk_struct(ex, "Mempool", "mempool")
    h = ex.fresh_value("[u8; 32]", "refused.hash.arg")
    body, co = L.coroutine(ctx, ex, r"blockchain::<impl at [^>]*>::add_block_failure",
                           [S.Ref(ccell, (), True), S.Ref(S.Cell(h), ()), S.Ref(S.Cell(pool), (), True)])
    outs = ex.run(body, [S.Ref(S.Cell(co), (), True), S.Opaque("cx", "Context")], S.State())
    v.paths += len(outs)
    n = cleaned = 0
    cc = [ccell]

    def into(a, idx):
        return isinstance(a, S.Ref) and a.cell is cc[0] and a.path and a.path[0][0] == "f" and a.path[0][1] == idx
    for o in outs:
        if o.kind in ("unsupported", "unwound", "path-limit"):
            return v.undecided("%s %s" % (o.kind, o.info))
        if o.kind == "panic":
            L.report_panic(v, ex, o, "add_block_failure panics: %s" % o.info)
            continue
        if o.kind != "return" or not ex.feasible(o.pc):
            continue
        n += 1
        cref = L.coroutine_arg_after(ex, o, "Blockchain", 0)
        if cref is None:
            return v.undecided("the chain state is not found in the coroutine's state")
        cc[0] = cref.cell
        calls = [e for e in o.events if e[0] == "call"]
        import os
        if os.environ.get("C04_DEBUG"):
            print([re.sub(r"<impl at [^>]*>", "", e[1])[-60:] for e in calls], L.trace_text(o, 30))
            for e in calls[-2:]:
                print(e[1][-30:], [(type(a).__name__, getattr(a, "path", None), getattr(a, "cell", None) is cc[0], getattr(a, "mut", None)) for a in e[2]])
        for e in calls:
            v.queries += 1
            short = re.sub(r"<impl at [^>]*>", "", e[1])[-60:]
            if any(into(a, utx_i) and getattr(a, "mut", False) for a in e[2]):
                v.fail("cleaning up after a refused block hands the spendable set mutably to %s (a refused block was never applied: touching the ledger for it removes or re-creates other blocks' outputs)" % short,
                       dict(path=L.trace_text(o, 10)))
            if re.search(r"RwLock<Wallet>>::write$|RwLock::<Wallet>::write$", e[1]) or (re.search(r"::write$", e[1]) and any(into(a, wl_i) for a in e[2])):
                v.fail("cleaning up after a refused block takes a write lock on the wallet (%s)" % short, dict(path=L.trace_text(o, 10)))
        dels = [e for e in calls if re.search(r"BlockRing::delete_block$", e[1])]
        if dels:
            cleaned += 1
            a = dels[0][2]
            from .models import value_eq
            bid, bh = block.fields[ctx.field_index("Block", "id")], block.fields[ctx.field_index("Block", "hash")]
            v.queries += 1
            if not (isinstance(a[1], S.I) and not ex.feasible(o.pc, a[1].bv != bid.bv) and not ex.feasible(o.pc, z3.Not(value_eq(ex, a[2], bh)))):
                v.fail("the chain-index entry removed for a refused block is not the refused block's own (id, hash)")
    if not n or not cleaned:
        return v.undecided("no path through the clean-up was explored (%d returning, %d with the index clean-up)" % (n, cleaned))
    v.covers_total += 1
    v.covers_sat += 1
