"""Shared exploration of Block::validate (async body) with every callee uninterpreted:
the generated consensus values, the previous block, configuration answers and the crypto
verdicts are free values; all paths of the body are enumerated once per process."""
import re, time
import z3
from . import sym as S, lib as L

_CACHE = {}


def explore(ctx):
    if "bv" in _CACHE:
        return _CACHE["bv"]
    ex = ctx.executor(loop_bound=3, max_paths=6000)
    block = S.Opaque("block", "Block")
    chain = S.Opaque("chain", "Blockchain")
    utxo = S.Opaque("utxo", "AHashMap")
    cfg = S.Opaque("cfg", "dyn Configuration")
    sto = S.Opaque("storage", "Storage")
    vau = ex.fresh_value("bool", "validate_against_utxo")
    t = time.time()
    bcell = S.Cell(block)
    outs, cell = L.run_async(ctx, ex, r"block::<impl at [^>]*>::validate", [S.Ref(bcell), S.Ref(S.Cell(chain)), S.Ref(S.Cell(utxo)), S.Ref(S.Cell(cfg)), S.Ref(S.Cell(sto)), vau])
    res = dict(ex=ex, outs=outs, block_cell=bcell, vau=vau, wall=time.time() - t)
    _CACHE["bv"] = res
    return res


def full_node_true_paths(ctx, v):
    """returning paths on which the result may be `true`, the node is not in SPV mode and the
    block is not a ghost block; None (and v.undecided set) if the exploration is incomplete"""
    r = explore(ctx)
    ex, outs = r["ex"], r["outs"]
    v.paths += len(outs)
    sel = []
    for o in outs:
        if o.kind in ("unsupported", "unwound", "path-limit"):
            v.undecided("Block::validate exploration incomplete: %s %s" % (o.kind, o.info))
            return None
        if o.kind != "return":
            continue
        val = L.ready_value(ex, o)
        if val is None or not isinstance(val, z3.BoolRef):
            continue
        spv = [e for e in o.events if e[0] == "call" and re.search(r"Configuration.*::is_spv_mode$|::is_spv_mode$", e[1])]
        conds = [val]
        if spv and isinstance(spv[0][3], z3.BoolRef):
            conds.append(z3.Not(spv[0][3]))
        if not ex.feasible(o.pc, z3.And(*conds)):
            continue
        # ghost blocks return before any check: recognised by having no verify_signature / cv call
        sel.append((o, z3.And(*conds)))
    return r, sel


def prev_block_is_ghost(ctx, r, o):
    """z3 condition: the previous block found in blockchain.blocks is a Ghost block (None if no lookup on this path)"""
    ex = r["ex"]
    gets = [e for e in o.events if e[0] == "call" and re.search(r"AHashMap::<\[u8; 32\], Block>::get::", e[1])]
    if not gets:
        return None
    res = gets[0][3]
    try:
        from .models import as_enum, payload
        e = as_enum(ex, res, "Option")
        pb = ex.deref_value(payload(ex, e, "Some"))
        bt = ex.step_get(pb, ("f", ctx.field_index("Block", "block_type"), "BlockType"))
        if isinstance(bt, S.EnumV):
            return L.enum_is(ctx, bt, "BlockType", "Ghost")
    except S.Unsupported:
        return None
    return None


def block_field_ref(ctx, r, arg, field):
    """is `arg` a reference to field `field` of the validated block?"""
    if not isinstance(arg, S.Ref) or not (isinstance(arg.cell.v, S.Opaque) and arg.cell.v.name == "block"):
        return False
    want = ctx.field_index("Block", field)
    return len(arg.path) == 1 and arg.path[0][0] == "f" and arg.path[0][1] == want


def block_field(ctx, r, o, field):
    ex = r["ex"]
    blk = o.state.frames[0].locals["_1"].v  # Pin<&mut coroutine> ~ Ref
    co = ex.deref_value(blk)
    bref = co.upvars[0] if isinstance(co.upvars[0], S.Ref) else co.payload and None
    # upvar 0 may have been moved into a variant slot; search for the Ref to the block cell
    cands = [co.upvars[0]] + [f for p in co.payload.values() if isinstance(p, S.Agg) for f in p.fields]
    for c in cands:
        if isinstance(c, S.Ref):
            b = ex.deref_value(c)
            if isinstance(b, S.Opaque) and b.name == "block":
                return ex.step_get(b, ("f", ctx.field_index("Block", field), ctx.norm_type(ctx.field_type("Block", field))))
    raise S.Unsupported("block value not found in coroutine state")
