"""C01 — only authorised, existing, unspent outputs are spent (engine M obligations)."""
import re
import z3
from . import sym as S, lib as L
from .run import model_values
from .models import value_eq


def _closure_setup(ctx, ex, K, pre_entries=1):
    """the per-transaction closure of Block::validate with a K-input transaction and a
    `new_slips_map` holding `pre_entries` arbitrary keys (the keys recorded for earlier
    transactions of the block)"""
    L.install_slip_key_model(ctx, ex)
    body = ctx.body(r"block::<impl at [^>]*>::validate::\{closure#0\}::\{closure#0\}$")
    slips = []
    for i in range(K):
        s = L.sym_slip(ctx, ex, "in%d" % i)
        slips.append(s)
    txtype = ex.fresh_value("TransactionType", "tx.type")
    tx = ctx.mk_struct(ex, "Transaction", "tx", **{"from": S.Seq(slips, "Slip"), "transaction_type": txtype})
    pre_keys = [ex.fresh_value("[u8; 59]", "prekey%d" % i) for i in range(pre_entries)]
    smap = S.MapV("new_slips_map", [[z3.BoolVal(True), k, S.const_int(1, "i32")] for k in pre_keys])
    utxo = S.Opaque("utxoset", "AHashMap")
    chain = S.Opaque("blockchain", "Blockchain")
    vau = ex.fresh_value("bool", "validate_against_utxo")
    block = S.Opaque("block", "Block")
    env = S.Agg("closure", "env", [S.Ref(S.Cell(utxo)), S.Ref(S.Cell(chain)), S.Ref(S.Cell(vau)), S.Ref(S.Cell(smap), (), True), S.Ref(S.Cell(block))])
    pre = [z3.And(L.enum_in_range(txtype, L.TX_TYPES))]
    for s in slips:
        pre.append(L.enum_in_range(L.slip_field(ctx, s, "slip_type"), L.SLIP_TYPES))
    return body, env, tx, slips, txtype, pre_keys, smap, pre


def _tx_validate_result(out):
    cs = L.calls(out, r"Transaction::validate$")
    return cs[0][3] if cs else None


def c01_block_tx_gate(ctx, v):
    """closure returns true  =>  Transaction::validate was called on this transaction and returned true"""
    for K in (0, 1, 2):
        ex = ctx.executor(loop_bound=K + 2)
        body, env, tx, slips, txtype, pre_keys, smap, pre = _closure_setup(ctx, ex, K)
        st = S.State()
        st.pc.extend(pre)
        outs = ex.run(body, [S.Ref(S.Cell(env), (), True), S.Ref(S.Cell(tx))], st)
        v.paths += len(outs)
        seen_true = False
        for o in outs:
            if o.kind in ("unsupported", "unwound", "path-limit"):
                return v.undecided("%s K=%d: %s" % (o.kind, K, o.info))
            if o.kind == "panic":
                v.fail("K=%d panic: %s" % (K, o.info))
                continue
            if o.kind != "return":
                continue
            res = _tx_validate_result(o)
            ret = o.value
            if res is None:
                r, m = ex.model_for(o.pc, ret)
                v.queries += 1
                if r == z3.sat:
                    v.fail("K=%d: closure can return true without calling Transaction::validate" % K, L.trace_text(o))
                continue
            r, m = ex.model_for(o.pc, z3.And(ret, z3.Not(res)))
            v.queries += 1
            if r == z3.sat:
                v.fail("K=%d inputs: the closure returns true although Transaction::validate returned false (verdict discarded)" % K,
                       dict(path=L.trace_text(o), tx_type=str(m.eval(txtype.discr.bv, model_completion=True))))
            r2, _ = ex.model_for(o.pc, z3.And(ret, res))
            v.queries += 1
            seen_true = seen_true or r2 == z3.sat
        v.covers_total += 1
        v.covers_sat += 1 if seen_true else 0


def c01_block_double_spend(ctx, v):
    """closure step on a valid non-Fee transaction: returns true  <=>  no value-carrying,
    non-Bound input's utxo key is already recorded for this block or repeated inside the
    transaction; and afterwards every such key is recorded (so a later transaction spending it
    is caught).  Pre-state: one arbitrary recorded key."""
    for K in (1, 2, 3):
        ex = ctx.executor(loop_bound=K + 2)
        body, env, tx, slips, txtype, pre_keys, smap, pre = _closure_setup(ctx, ex, K)
        # Transaction::validate is uninterpreted; we look at paths where it answered true
        st = S.State()
        st.pc.extend(pre)
        outs = ex.run(body, [S.Ref(S.Cell(env), (), True), S.Ref(S.Cell(tx))], st)
        v.paths += len(outs)
        fee = L.enum_is(ctx, txtype, "TransactionType", "Fee")
        keys = [L.utxo_key_of(ctx, ex, s) for s in slips]
        relevant = []
        for s in slips:
            amt = L.slip_field(ctx, s, "amount")
            stype = L.slip_field(ctx, s, "slip_type")
            relevant.append(z3.And(amt.bv != 0, z3.Not(L.enum_is(ctx, stype, "SlipType", "Bound"))))
        # oracle: conflict iff some relevant input's key is in the pre-map or equals an earlier relevant input's key
        conflict = []
        for i in range(K):
            c = [value_eq(ex, keys[i], pk) for pk in pre_keys]
            c += [z3.And(relevant[j], value_eq(ex, keys[i], keys[j])) for j in range(i)]
            conflict.append(z3.And(relevant[i], z3.Or(*c)))
        any_conflict = z3.Or(*conflict)
        cov = False
        for o in outs:
            if o.kind in ("unsupported", "unwound", "path-limit"):
                return v.undecided("%s K=%d: %s" % (o.kind, K, o.info))
            if o.kind == "panic":
                v.fail("K=%d panic: %s" % (K, o.info))
                continue
            if o.kind != "return":
                continue
            res = _tx_validate_result(o)
            if res is None:
                continue
            ret = o.value
            base = z3.And(res, z3.Not(fee))
            # (1) accepted although there is a conflict
            r, m = ex.model_for(o.pc, z3.And(base, ret, any_conflict))
            v.queries += 1
            if r == z3.sat:
                wit = model_values(m, dict(**{"key%d" % i: keys[i] for i in range(K)}, **{"amount%d" % i: L.slip_field(ctx, slips[i], "amount") for i in range(K)}, prekey=pre_keys[0]))
                wit["slip_types"] = [str(m.eval(L.slip_field(ctx, s, "slip_type").discr.bv, model_completion=True)) for s in slips]
                wit["path"] = L.trace_text(o)
                v.fail("K=%d inputs: a valid non-Fee transaction that re-spends a recorded/duplicated output is accepted by the double-spend scan" % K, wit)
            # (2) rejected although there is no conflict
            r, m = ex.model_for(o.pc, z3.And(base, z3.Not(ret), z3.Not(any_conflict)))
            v.queries += 1
            if r == z3.sat:
                v.fail("K=%d inputs: rejected without any conflict" % K, L.trace_text(o))
            # (3) accepted => every relevant key is recorded afterwards
            fmap = o.state.frames[0].locals["_1"].v.cell.v.fields[3].cell.v
            for i in range(K):
                inmap = z3.Or(*[z3.And(p, value_eq(ex, ek, keys[i])) for p, ek, ev in fmap.entries])
                r, m = ex.model_for(o.pc, z3.And(base, ret, relevant[i], z3.Not(inmap)))
                v.queries += 1
                if r == z3.sat:
                    v.fail("K=%d inputs: input %d is value-carrying and not Bound but its key is not recorded after an accepting step (a later double spend of it goes unnoticed)" % (K, i),
                           dict(path=L.trace_text(o), slip_types=[str(m.eval(L.slip_field(ctx, s, "slip_type").discr.bv, model_completion=True)) for s in slips],
                                amounts=[m.eval(L.slip_field(ctx, s, "amount").bv, model_completion=True).as_long() for s in slips],
                                tx_type=str(m.eval(txtype.discr.bv, model_completion=True))))
            r, _ = ex.model_for(o.pc, z3.And(base, z3.Not(ret), any_conflict))
            v.queries += 1
            cov = cov or r == z3.sat
        v.covers_total += 1
        v.covers_sat += 1 if cov else 0


def c01_pool_gate(ctx, v):
    """Mempool::add_transaction_if_validates: Mempool::add_transaction is reached only after
    Transaction::validate(tx, utxoset, blockchain, true) returned true for that transaction."""
    ex = ctx.executor(loop_bound=3)
    mem = S.Opaque("mempool", "Mempool")
    tx = S.Opaque("tx", "Transaction")
    chain = S.Opaque("blockchain", "Blockchain")
    outs, cell = L.run_async(ctx, ex, r"mempool::<impl at [^>]*>::add_transaction_if_validates", [S.Ref(S.Cell(mem), (), True), tx, S.Ref(S.Cell(chain))])
    v.paths += len(outs)
    added = False
    for o in outs:
        if o.kind in ("unsupported", "unwound", "path-limit"):
            return v.undecided("%s: %s" % (o.kind, o.info))
        if o.kind == "panic":
            v.fail("panic: %s" % o.info)
            continue
        adds = L.calls(o, r"Mempool::add_transaction$")
        vals = L.calls(o, r"Transaction::validate$")
        if adds:
            added = True
            v.queries += 1
            if not vals:
                v.fail("Mempool::add_transaction reached without a call to Transaction::validate", L.trace_text(o))
                continue
            # validate must precede the add, with validate_against_utxo = true, and have answered true
            i_val = o.events.index(vals[0])
            i_add = o.events.index(adds[0])
            flag = vals[0][2][3]
            r, m = ex.model_for(o.pc, z3.Or(z3.Not(vals[0][3]), z3.Not(flag)))
            if i_val > i_add or r == z3.sat:
                v.fail("a transaction is pooled although Transaction::validate(.., validate_against_utxo=true) did not return true", L.trace_text(o))
    v.covers_total += 1
    v.covers_sat += 1 if added else 0


def c01_generate_commits_every_atr(ctx, v):
    """a privileged (ATR-typed) transaction skips the signature and ownership checks of
    Transaction::validate; what keeps an unsolicited one out of an accepted block is the
    rebroadcast commitment — every ATR-typed transaction must be folded into it (see C13)."""
    from . import obl_c13
    obl_c13.c13_generate_commits_every_atr(ctx, v)


def c01_unwind_full_before_revert(ctx, v):
    """outputs created on an abandoned fork must stop being spendable: unwind_chain reverts a
    block's transactions only after the block has its transactions in memory (a pruned block
    reverts nothing) — same obligation as C03 c03_unwind_full_before_revert."""
    from . import obl_c03
    obl_c03.c03_unwind_full_before_revert(ctx, v)
