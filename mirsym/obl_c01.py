"""C01 — only authorised, existing, unspent outputs are spent (engine M obligations)."""
import re
import z3
from . import sym as S, lib as L
from .run import model_values
from .models import value_eq


def _closure_setup(ctx, ex, K, pre_entries=1):
    """the per-transaction closure of Block::validate with a K-input transaction and a
    `new_slips_map` holding `pre_entries` arbitrary keys (the keys recorded for earlier
    transactions of the block)"""
    L.install_slip_key_model(ctx, ex)
    body = ctx.body(r"block::<impl at [^>]*>::validate::\{closure#0\}::\{closure#0\}$")
    slips = []
    for i in range(K):
        s = L.sym_slip(ctx, ex, "in%d" % i)
        slips.append(s)
    txtype = ex.fresh_value("TransactionType", "tx.type")
    tx = ctx.mk_struct(ex, "Transaction", "tx", **{"from": S.Seq(slips, "Slip"), "transaction_type": txtype})
    pre_keys = [ex.fresh_value("[u8; 59]", "prekey%d" % i) for i in range(pre_entries)]
    smap = S.MapV("new_slips_map", [[z3.BoolVal(True), k, S.const_int(1, "i32")] for k in pre_keys])
    utxo = S.Opaque("utxoset", "AHashMap")
    chain = S.Opaque("blockchain", "Blockchain")
    vau = ex.fresh_value("bool", "validate_against_utxo")
    block = S.Opaque("block", "Block")
    env = S.Agg("closure", "env", [S.Ref(S.Cell(utxo)), S.Ref(S.Cell(chain)), S.Ref(S.Cell(vau)), S.Ref(S.Cell(smap), (), True), S.Ref(S.Cell(block))])
    pre = [z3.And(L.enum_in_range(txtype, L.TX_TYPES))]
    for s in slips:
        pre.append(L.enum_in_range(L.slip_field(ctx, s, "slip_type"), L.SLIP_TYPES))
    return body, env, tx, slips, txtype, pre_keys, smap, pre


def _tx_validate_result(out):
    cs = L.calls(out, r"Transaction::validate$")
    return cs[0][3] if cs else None


def c01_block_tx_gate(ctx, v):
    """closure returns true  =>  Transaction::validate was called on this transaction and returned true"""
    for K in (0, 1, 2):
        ex = ctx.executor(loop_bound=K + 2)
        body, env, tx, slips, txtype, pre_keys, smap, pre = _closure_setup(ctx, ex, K)
        st = S.State()
        st.pc.extend(pre)
        outs = ex.run(body, [S.Ref(S.Cell(env), (), True), S.Ref(S.Cell(tx))], st)
        v.paths += len(outs)
        seen_true = False
        for o in outs:
            if o.kind in ("unsupported", "unwound", "path-limit"):
                return v.undecided("%s K=%d: %s" % (o.kind, K, o.info))
            if o.kind == "panic":
                L.report_panic(v, ex, o, "K=%d panic: %s" % (K, o.info))
                continue
            if o.kind != "return":
                continue
            res = _tx_validate_result(o)
            ret = o.value
            if res is None:
                r, m = ex.model_for(o.pc, ret)
                v.queries += 1
                if r == z3.sat:
                    v.fail("K=%d: closure can return true without calling Transaction::validate" % K, L.trace_text(o))
                continue
            r, m = ex.model_for(o.pc, z3.And(ret, z3.Not(res)))
            v.queries += 1
            if r == z3.sat:
                v.fail("K=%d inputs: the closure returns true although Transaction::validate returned false (verdict discarded)" % K,
                       dict(path=L.trace_text(o), tx_type=str(m.eval(txtype.discr.bv, model_completion=True))))
            r2, _ = ex.model_for(o.pc, z3.And(ret, res))
            v.queries += 1
            seen_true = seen_true or r2 == z3.sat
        v.covers_total += 1
        v.covers_sat += 1 if seen_true else 0


def c01_block_double_spend(ctx, v):
    """closure step on a valid non-Fee transaction: returns true  <=>  no value-carrying,
    non-Bound input's utxo key is already recorded for this block or repeated inside the
    transaction; and afterwards every such key is recorded (so a later transaction spending it
    is caught).  Pre-state: one arbitrary recorded key."""
    for K in (1, 2, 3):
        ex = ctx.executor(loop_bound=K + 2)
        body, env, tx, slips, txtype, pre_keys, smap, pre = _closure_setup(ctx, ex, K)
        # Transaction::validate is uninterpreted; we look at paths where it answered true
        st = S.State()
        st.pc.extend(pre)
        outs = ex.run(body, [S.Ref(S.Cell(env), (), True), S.Ref(S.Cell(tx))], st)
        v.paths += len(outs)
        fee = L.enum_is(ctx, txtype, "TransactionType", "Fee")
        keys = [L.utxo_key_of(ctx, ex, s) for s in slips]
        relevant = []
        for s in slips:
            amt = L.slip_field(ctx, s, "amount")
            stype = L.slip_field(ctx, s, "slip_type")
            relevant.append(z3.And(amt.bv != 0, z3.Not(L.enum_is(ctx, stype, "SlipType", "Bound"))))
        # oracle: conflict iff some relevant input's key is in the pre-map or equals an earlier relevant input's key
        conflict = []
        for i in range(K):
            c = [value_eq(ex, keys[i], pk) for pk in pre_keys]
            c += [z3.And(relevant[j], value_eq(ex, keys[i], keys[j])) for j in range(i)]
            conflict.append(z3.And(relevant[i], z3.Or(*c)))
        any_conflict = z3.Or(*conflict)
        cov = False
        for o in outs:
            if o.kind in ("unsupported", "unwound", "path-limit"):
                return v.undecided("%s K=%d: %s" % (o.kind, K, o.info))
            if o.kind == "panic":
                L.report_panic(v, ex, o, "K=%d panic: %s" % (K, o.info))
                continue
            if o.kind != "return":
                continue
            res = _tx_validate_result(o)
            if res is None:
                continue
            ret = o.value
            base = z3.And(res, z3.Not(fee))
            # (1) accepted although there is a conflict
            r, m = ex.model_for(o.pc, z3.And(base, ret, any_conflict))
            v.queries += 1
            if r == z3.sat:
                wit = model_values(m, dict(**{"key%d" % i: keys[i] for i in range(K)}, **{"amount%d" % i: L.slip_field(ctx, slips[i], "amount") for i in range(K)}, prekey=pre_keys[0]))
                wit["slip_types"] = [str(m.eval(L.slip_field(ctx, s, "slip_type").discr.bv, model_completion=True)) for s in slips]
                wit["path"] = L.trace_text(o)
                v.fail("K=%d inputs: a valid non-Fee transaction that re-spends a recorded/duplicated output is accepted by the double-spend scan" % K, wit)
            # (2) rejected although there is no conflict
            r, m = ex.model_for(o.pc, z3.And(base, z3.Not(ret), z3.Not(any_conflict)))
            v.queries += 1
            if r == z3.sat:
                v.fail("K=%d inputs: rejected without any conflict" % K, L.trace_text(o))
            # (3) accepted => every relevant key is recorded afterwards
            fmap = o.state.frames[0].locals["_1"].v.cell.v.fields[3].cell.v
            for i in range(K):
                inmap = z3.Or(*[z3.And(p, value_eq(ex, ek, keys[i])) for p, ek, ev in fmap.entries])
                r, m = ex.model_for(o.pc, z3.And(base, ret, relevant[i], z3.Not(inmap)))
                v.queries += 1
                if r == z3.sat:
                    v.fail("K=%d inputs: input %d is value-carrying and not Bound but its key is not recorded after an accepting step (a later double spend of it goes unnoticed)" % (K, i),
                           dict(path=L.trace_text(o), slip_types=[str(m.eval(L.slip_field(ctx, s, "slip_type").discr.bv, model_completion=True)) for s in slips],
                                amounts=[m.eval(L.slip_field(ctx, s, "amount").bv, model_completion=True).as_long() for s in slips],
                                tx_type=str(m.eval(txtype.discr.bv, model_completion=True))))
            r, _ = ex.model_for(o.pc, z3.And(base, z3.Not(ret), any_conflict))
            v.queries += 1
            cov = cov or r == z3.sat
        v.covers_total += 1
        v.covers_sat += 1 if cov else 0


def c01_pool_gate(ctx, v):
    """Mempool::add_transaction_if_validates: Mempool::add_transaction is reached only after
    Transaction::validate(tx, utxoset, blockchain, true) returned true for that transaction."""
    ex = ctx.executor(loop_bound=3)
    mem = S.Opaque("mempool", "Mempool")
    tx = S.Opaque("tx", "Transaction")
    chain = S.Opaque("blockchain", "Blockchain")
    outs, cell = L.run_async(ctx, ex, r"mempool::<impl at [^>]*>::add_transaction_if_validates", [S.Ref(S.Cell(mem), (), True), tx, S.Ref(S.Cell(chain))])
    v.paths += len(outs)
    added = False
    for o in outs:
        if o.kind in ("unsupported", "unwound", "path-limit"):
            return v.undecided("%s: %s" % (o.kind, o.info))
        if o.kind == "panic":
            L.report_panic(v, ex, o, "panic: %s" % o.info)
            continue
        adds = L.calls(o, r"Mempool::add_transaction$")
        vals = L.calls(o, r"Transaction::validate$")
        if adds:
            added = True
            v.queries += 1
            if not vals:
                v.fail("Mempool::add_transaction reached without a call to Transaction::validate", L.trace_text(o))
                continue
            # validate must precede the add, with validate_against_utxo = true, and have answered true
            i_val = o.events.index(vals[0])
            i_add = o.events.index(adds[0])
            flag = vals[0][2][3]
            r, m = ex.model_for(o.pc, z3.Or(z3.Not(vals[0][3]), z3.Not(flag)))
            if i_val > i_add or r == z3.sat:
                v.fail("a transaction is pooled although Transaction::validate(.., validate_against_utxo=true) did not return true", L.trace_text(o))
    v.covers_total += 1
    v.covers_sat += 1 if added else 0


def c01_generate_commits_every_atr(ctx, v):
    """a privileged (ATR-typed) transaction skips the signature and ownership checks of
    Transaction::validate; what keeps an unsolicited one out of an accepted block is the
    rebroadcast commitment — every ATR-typed transaction must be folded into it (see C13)."""
    from . import obl_c13
    obl_c13.c13_generate_commits_every_atr(ctx, v)


def c01_unwind_full_before_revert(ctx, v):
    """outputs created on an abandoned fork must stop being spendable: unwind_chain reverts a
    block's transactions only after the block has its transactions in memory (a pruned block
    reverts nothing) — same obligation as C03 c03_unwind_full_before_revert."""
    from . import obl_c03
    obl_c03.c03_unwind_full_before_revert(ctx, v)


def c01_ledger_check_switch(ctx, v):
    """Whether a block wound onto the chain is checked against the ledger (spent / non-existent /
    expired inputs) hangs on one switch.  (a) Blockchain::has_total_supply_loaded(gp), for every
    tip height, gp and content of the longest-chain index (an arbitrary predicate over heights):
    it answers true exactly when the index holds block #1 or — once the tip is above gp — the
    block at height tip - gp.  (b) Blockchain::wind_chain hands exactly that answer to
    Block::validate as `validate_against_utxo` on every path that validates a block."""
    from .models import mk_some, mk_none
    body = ctx.body(r"blockchain::<impl at [^>]*>::has_total_supply_loaded$")
    ex = ctx.executor(loop_bound=3, inline="auto", no_inline=[r"get_longest_chain_block_hash_at_block_id$", r"get_latest_block_id$"])
    ex.pure = [r".*"]
    present = z3.Function("index_holds_height", z3.BitVecSort(64), z3.BoolSort())
    tip = ex.fresh_value("u64", "tip.id")
    gp = ex.fresh_value("u64", "genesis_period")

    def hook(ex_, st, callee, args, dty):
        if re.search(r"get_longest_chain_block_hash_at_block_id$", callee):
            h = args[1]
            return ("__fork__", [(present(h.bv), mk_some(dty, ex_.fresh_value("[u8; 32]", "hash!%d" % next(ex_.fresh_counter)))), (z3.Not(present(h.bv)), mk_none(dty))])
        if re.search(r"get_latest_block_id$", callee):
            return ex_.copy_value(tip)
        return None
    ex.on_call = hook
    outs = ex.run(body, [S.Ref(S.Cell(S.Opaque("blockchain", "Blockchain"))), gp], S.State())
    v.paths += len(outs)
    n = 0
    ref = z3.Or(present(z3.BitVecVal(1, 64)), z3.And(z3.UGT(tip.bv, gp.bv), present(tip.bv - gp.bv)))
    for o in outs:
        if o.kind in ("unsupported", "unwound", "path-limit"):
            return v.undecided("%s %s" % (o.kind, o.info))
        if o.kind == "panic":
            L.report_panic(v, ex, o, "has_total_supply_loaded panics: %s" % o.info)
            continue
        if o.kind != "return":
            continue
        res = o.value if z3.is_bool(o.value) else (o.value.bv != 0)
        r, m = ex.model_for(o.pc, res != ref)
        v.queries += 1
        if r == z3.sat:
            L.fail_structural(v, o, "has_total_supply_loaded answers %s for tip %d, genesis period %d although the index %s block #1 and %s the block at tip - genesis_period: blocks would be wound %s the ledger check" % (
                m.eval(res, model_completion=True), m.eval(tip.bv, model_completion=True).as_long(), m.eval(gp.bv, model_completion=True).as_long(),
                "holds" if z3.is_true(m.eval(present(z3.BitVecVal(1, 64)), model_completion=True)) else "does not hold",
                "holds" if z3.is_true(m.eval(present(tip.bv - gp.bv), model_completion=True)) else "does not hold",
                "without" if z3.is_false(m.eval(res, model_completion=True)) else "with"))
        elif r == z3.unsat:
            n += 1
        else:
            return v.undecided("solver: no verdict")
    v.covers_total += 1
    v.covers_sat += 1 if n else 0
    # (b) the switch is what wind_chain passes to Block::validate
    from . import obl_c04
    ex2, args, valid = obl_c04._setup(ctx, 2, 1, 12)
    H = z3.Bool("has_total_supply_loaded")
    inner = ex2.on_call
    seen_validate = []

    def hook2(ex_, st, callee, a, dty):
        if re.search(r"has_total_supply_loaded$", callee):
            return H
        if re.search(r"(?:^|::)Block::validate$", callee):
            st.events.append(("validate_args", callee, a, None))
        return inner(ex_, st, callee, a, dty)
    ex2.on_call = hook2
    chain_ref, new_ref, old_ref, storage, cfg = args
    body2, co = L.coroutine(ctx, ex2, r"blockchain::<impl at [^>]*>::wind_chain", [chain_ref, new_ref, old_ref, S.const_int(1, "usize"), z3.BoolVal(False), storage, cfg])
    outs2 = ex2.run(body2, [S.Ref(S.Cell(co), (), True), S.Opaque("cx", "Context")], S.State())
    v.paths += len(outs2)
    m2 = 0
    for o in outs2:
        if o.kind in ("unsupported", "path-limit"):
            return v.undecided("wind_chain: %s %s" % (o.kind, o.info))
        for e in o.events:
            if e[0] != "validate_args":
                continue
            flag = e[2][-1]
            flag = flag if z3.is_bool(flag) else (flag.bv != 0)
            v.queries += 1
            if ex2.feasible(o.pc, flag != H):
                L.fail_structural(v, o, "wind_chain does not pass the answer of has_total_supply_loaded to Block::validate as validate_against_utxo")
            else:
                m2 += 1
    if not m2:
        return v.undecided("wind_chain never reached Block::validate")
    v.covers_total += 1
    v.covers_sat += 1


def c01_tx_signature_gate(ctx, v):
    """Transaction::validate for every user-originated type (Normal, GoldenTicket, Vip, Bound —
    i.e. every type except the block-generated Fee / ATR / Issuance and the SPV / BlockStake forms
    that return earlier), 1 input x 1..=2 outputs: it answers true only if verify_signature was
    asked about exactly (hash_for_signature, signature, from[0].public_key) and said yes — the
    signature of the key that owns the first input authorises the spend, for every one of those
    types."""
    from . import obl_c02
    val = ctx.body(r"transaction::<impl at [^>]*>::validate$")
    ok = 0
    for nout in (1, 2):
        ex = ctx.executor(loop_bound=5, inline="auto", max_paths=6000, no_inline=[r"verify_signature$", r"validate_routing_path$", r"fmt", r"to_hex", r"to_base58"])
        ex.pure = [r".*"]
        L.install_slip_key_model(ctx, ex)
        tx, ins, outs_, ttype, pre = obl_c02._tx(ctx, ex, 1, nout)
        sig = ex.fresh_value("[u8; 64]", "tx.signature")
        tx.fields[ctx.field_index("Transaction", "signature")] = sig
        user = z3.Or(*[L.enum_is(ctx, ttype, "TransactionType", t) for t in ("Normal", "GoldenTicket", "Vip", "Bound")])
        st = S.State()
        st.pc.extend(pre + [user])
        outs = ex.run(val, [S.Ref(S.Cell(tx)), S.Ref(S.Cell(S.Opaque("utxoset", "AHashMap"))), S.Ref(S.Cell(S.Opaque("blockchain", "Blockchain"))), z3.BoolVal(True)], st)
        v.paths += len(outs)
        hfs = tx.fields[ctx.field_index("Transaction", "hash_for_signature")].payload["Some"].fields[0]
        owner = L.slip_field(ctx, ins[0], "public_key")
        for o in outs:
            if o.kind in ("unsupported", "unwound", "path-limit"):
                return v.undecided("%s %s" % (o.kind, o.info))
            if o.kind != "return" or not z3.is_bool(o.value):
                continue
            calls = [e for e in o.events if e[0] == "call" and re.search(r"verify_signature$", e[1])]
            good = []
            for c in calls:
                a = getattr(c[2], "snap", None) or [ex.deref_value(x) if isinstance(x, S.Ref) else x for x in c[2]]
                if len(a) == 3 and all(isinstance(x, S.Bytes) for x in a):
                    same = z3.And(value_eq(ex, a[0], hfs), value_eq(ex, a[1], sig), value_eq(ex, a[2], owner))
                    verdict = c[3] if z3.is_bool(c[3]) else (c[3].bv != 0)
                    good.append(z3.And(same, verdict))
            authorised = z3.Or(*good) if good else z3.BoolVal(False)
            r, m = ex.model_for(o.pc, z3.And(o.value, z3.Not(authorised)))
            v.queries += 1
            if r == z3.sat:
                tname = [nm for nm, d in ctx.enums["TransactionType"] if d == m.eval(ttype.discr.bv, model_completion=True).as_long()]
                v.fail("Transaction::validate accepts a %s transaction without a valid signature of the key owning its first input over its hash" % (tname[0] if tname else "?"))
            elif r == z3.unsat:
                ok += 1
            else:
                return v.undecided("solver: no verdict")
    v.covers_total += 1
    v.covers_sat += 1 if ok else 0


def c01_stake_input_must_exist(ctx, v):
    """Blockchain::is_slip_unlocked(key) — the only existence / unspent check applied to the inputs
    of a staking (BlockStake) transaction, which returns from Transaction::validate before the
    general ledger look-up — for every key: it answers true only if the ledger holds that key
    as spendable (utxoset.get(key) == Some(true)), whatever the slip type and height the key
    decodes to."""
    from .models import mk_some, mk_none, mk_ok
    body = ctx.body(r"blockchain::<impl at [^>]*>::is_slip_unlocked$")
    ex = ctx.executor(loop_bound=3, inline="auto", no_inline=[r"parse_slip_from_utxokey$", r"get_latest_unlocked_stake_block_id$", r"fmt", r"to_hex"])
    ex.pure = [r".*"]
    present = z3.Bool("ledger_holds_key")
    spendable = z3.Bool("ledger_value_spendable")
    slip = L.sym_slip(ctx, ex, "decoded")
    looked = []

    def hook(ex_, st, callee, args, dty):
        if re.search(r"parse_slip_from_utxokey$", callee):
            return mk_ok(dty, ex_.copy_value(slip))
        if re.search(r"(?:AHashMap|HashMap)::<\[u8; 59\], bool[^>]*>::get::", callee):
            st.events.append(("lookup", callee, args, None))
            return ("__fork__", [(present, mk_some(dty, S.Ref(S.Cell(spendable)))), (z3.Not(present), mk_none(dty))])
        return None
    ex.on_call = hook
    st = S.State()
    st.pc.append(L.enum_in_range(L.slip_field(ctx, slip, "slip_type"), L.SLIP_TYPES))
    outs = ex.run(body, [S.Ref(S.Cell(S.Opaque("blockchain", "Blockchain"))), S.Ref(S.Cell(ex.fresh_value("[u8; 59]", "utxo_key")))], st)
    v.paths += len(outs)
    n = 0
    for o in outs:
        if o.kind in ("unsupported", "unwound", "path-limit"):
            return v.undecided("%s %s" % (o.kind, o.info))
        if o.kind == "panic":
            L.report_panic(v, ex, o, "is_slip_unlocked panics: %s" % o.info)
            continue
        if o.kind != "return":
            continue
        res = o.value if z3.is_bool(o.value) else (o.value.bv != 0)
        seen = [e for e in o.events if e[0] == "lookup"]
        ok_cond = z3.And(present, spendable) if seen else z3.BoolVal(False)
        r, m = ex.model_for(o.pc, z3.And(res, z3.Not(ok_cond)))
        v.queries += 1
        if r == z3.sat:
            tname = [nm for nm, d in ctx.enums["SlipType"] if d == m.eval(L.slip_field(ctx, slip, "slip_type").discr.bv, model_completion=True).as_long()]
            v.fail("is_slip_unlocked answers true for a %s key %s" % (tname[0] if tname else "?", "without looking it up in the ledger" if not seen else "that the ledger does not hold as spendable"))
        elif r == z3.unsat:
            n += 1
        else:
            return v.undecided("solver: no verdict")
    v.covers_total += 1
    v.covers_sat += 1 if n else 0
