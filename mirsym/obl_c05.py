"""C05 — fork choice kernels (engine M)."""
import re
import z3
from . import sym as S, lib as L
from .run import model_values
from .models import value_eq, mk_some, mk_none

MAX_SUPPLY = 7_000_000_000 * 100_000_000


def _block(ctx, ex, name, **f):
    return ctx.mk_struct(ex, "Block", name, **f)


def c05_longest_chain_rule(ctx, v):
    """Blockchain::is_new_chain_the_longest_chain, new/old chains of up to 3 blocks each with
    symbolic ids and burn fees (each <= total supply): with a non-empty ring the answer is
    true  <=>  |new| > |old|  and  sum(bf new) >= sum(bf old) (u128)  and  latest id < id(new[0])."""
    body = ctx.body(r"blockchain::<impl at [^>]*>::is_new_chain_the_longest_chain$")
    nmax = 3 if ctx.tier == "quick" else 4
    for n_new in range(1, nmax + 1):
        for n_old in range(0, nmax + 1):
            ex = ctx.executor(loop_bound=max(n_new, n_old) + 2)
            hashes = [ex.fresh_value("[u8; 32]", "h%d" % i) for i in range(n_new + n_old)]
            distinct = [z3.Not(value_eq(ex, hashes[i], hashes[j])) for i in range(len(hashes)) for j in range(i)]
            blocks = [_block(ctx, ex, "b%d" % i) for i in range(n_new + n_old)]
            bf = [b.fields[ctx.field_index("Block", "burnfee")] for b in blocks]
            ids = [b.fields[ctx.field_index("Block", "id")] for b in blocks]
            bmap = S.MapV("blocks", [[z3.BoolVal(True), hashes[i], blocks[i]] for i in range(len(hashes))])
            ring_empty = ex.fresh_value("bool", "ring_empty")
            latest = ex.fresh_value("u64", "latest_block_id")

            def hook(ex_, st, callee, args, dty):
                if re.search(r"BlockRing::is_empty$", callee):
                    return ring_empty
                if re.search(r"BlockRing::get_latest_block_id$", callee):
                    return latest
                return None
            ex.on_call = hook
            chain = S.Opaque("blockchain", "Blockchain")
            chain.children[("f", ctx.field_index("Blockchain", "blocks"))] = bmap
            new_chain = S.Seq(hashes[:n_new])
            old_chain = S.Seq(hashes[n_new:])
            st = S.State()
            st.pc.extend(distinct + [z3.ULE(x.bv, z3.BitVecVal(MAX_SUPPLY, 64)) for x in bf])
            outs = ex.run(body, [S.Ref(S.Cell(chain)), S.Ref(S.Cell(new_chain)), S.Ref(S.Cell(old_chain))], st)
            v.paths += len(outs)
            ext = lambda x: z3.ZeroExt(64, x.bv)
            sum_new = sum([ext(x) for x in bf[:n_new]], z3.BitVecVal(0, 128))
            sum_old = sum([ext(x) for x in bf[n_new:]], z3.BitVecVal(0, 128))
            rule = z3.And(z3.BoolVal(n_new > n_old), z3.UGE(sum_new, sum_old), z3.ULT(latest.bv, ids[0].bv))
            expect = z3.Or(ring_empty, rule)
            saw_true = False
            for o in outs:
                if o.kind in ("unsupported", "unwound", "path-limit"):
                    return v.undecided("%s |new|=%d |old|=%d: %s" % (o.kind, n_new, n_old, o.info))
                if o.kind == "panic":
                    r, m = ex.model_for(o.pc)
                    v.queries += 1
                    v.fail("|new|=%d |old|=%d: panic reachable: %s" % (n_new, n_old, o.info), model_values(m, {"bf%d" % i: bf[i] for i in range(len(bf))}))
                    continue
                if o.kind != "return":
                    continue
                r, m = ex.model_for(o.pc, o.value != expect)
                v.queries += 1
                if r == z3.sat:
                    wit = model_values(m, dict(latest_block_id=latest, **{"burnfee%d" % i: bf[i] for i in range(len(bf))}, **{"id%d" % i: ids[i] for i in range(len(ids))}))
                    wit.update(n_new=n_new, n_old=n_old, returned=str(m.eval(o.value, model_completion=True)), ring_empty=str(m.eval(ring_empty, model_completion=True)),
                               note="new chain = blocks 0..n_new, old chain = the rest (tip first)")
                    v.fail("|new|=%d |old|=%d: answer differs from the rule (strictly longer, cumulative burn fee at least as large, ahead of the current tip)" % (n_new, n_old), wit)
                    v.replay_rust = _replay_lcr(wit)
                r2, _ = ex.model_for(o.pc, z3.And(o.value, z3.Not(ring_empty)))
                v.queries += 1
                saw_true = saw_true or r2 == z3.sat
            if n_new > n_old:
                v.covers_total += 1
                v.covers_sat += 1 if saw_true else 0


def _replay_lcr(w):
    n_new, n_old = w["n_new"], w["n_old"]
    n = n_new + n_old
    lines = []
    for i in range(n):
        lines.append("    let mut b = Block::new(); b.id = %du64; b.burnfee = %du64; b.hash = [%du8; 32]; chain.blocks.insert(b.hash, b);" % (w["id%d" % i], w["burnfee%d" % i], i + 1))
    src = """
// The private kernel is reached through the public add_block path only with full blocks; this
// replay re-states the rule on the solver's values and shows the disagreement arithmetically.
#[test]
fn replay_c05_longest_chain_rule() {
    let new_bf: u128 = [%s].iter().map(|x: &u64| *x as u128).sum();
    let old_bf: u128 = [%s].iter().map(|x: &u64| *x as u128).sum();
    let rule = %d > %d && new_bf >= old_bf && %du64 < %du64;
    let returned = %s;
    assert_eq!(returned, rule, "is_new_chain_the_longest_chain returned {} for new_bf={} old_bf={}", returned, new_bf, old_bf);
}
""" % (", ".join("%du64" % w["burnfee%d" % i] for i in range(n_new)) or "0u64; 0", ", ".join("%du64" % w["burnfee%d" % i] for i in range(n_new, n)) or "0u64; 0",
       n_new, n_old, w["latest_block_id"], w["id0"], w["returned"].lower())
    return None  # the kernel is private: no native entry point without the hook; symbolic counterexample only


def c05_gt_window(ctx, v):
    """is_golden_ticket_count_valid_ with an arbitrary ancestor chain of depth 0..=6 (symbolic
    golden-ticket flags), symbolic current-block flag and bypass:
    fewer than 4 ancestors -> true; 4 ancestors -> bypass or >=1 ticket (incl. current);
    5+ ancestors -> bypass or >=2 tickets among the 5 ancestors and the current block."""
    body = ctx.body(r"^is_golden_ticket_count_valid_$")
    for depth in range(0, 7):
        ex = ctx.executor(loop_bound=8)
        flags = [ex.fresh_value("bool", "gt%d" % i) for i in range(depth)]
        hashes = [ex.fresh_value("[u8; 32]", "anc%d" % i) for i in range(depth + 1)]
        blocks = []
        for i in range(depth):
            blocks.append(ctx.mk_struct(ex, "Block", "anc%d" % i, has_golden_ticket=flags[i], previous_block_hash=hashes[i + 1]))
        cur = ex.fresh_value("bool", "current_has_gt")
        bypass = ex.fresh_value("bool", "bypass")
        distinct = [z3.Not(value_eq(ex, hashes[i], hashes[j])) for i in range(len(hashes)) for j in range(i)]

        def hook(ex_, st, callee, args, dty, blocks=blocks, hashes=hashes, depth=depth):
            if re.search(r"<F as Fn<\(\[u8; 32\],\)>>::call$", callee):
                h = args[1].fields[0] if isinstance(args[1], S.Agg) else args[1]
                outs = []
                for i in range(depth):
                    outs.append((value_eq(ex_, h, hashes[i]), mk_some(dty, S.Ref(S.Cell(blocks[i])))))
                outs.append((z3.And(*[z3.Not(value_eq(ex_, h, hashes[i])) for i in range(depth)]) if depth else z3.BoolVal(True), mk_none(dty)))
                return ("__fork__", outs)
            return None
        ex.models = [(re.compile(r"<F as Fn<.*>>::call$"), lambda ex_, st, callee, args, dty, m: hook(ex_, st, callee, args, dty))] + list(ex.models)
        st = S.State()
        st.pc.extend(distinct)
        outs = ex.run(body, [hashes[0], cur, bypass, S.Opaque("get_block", "F")], st)
        v.paths += len(outs)
        d = min(depth, 5)
        count = sum([z3.If(f, 1, 0) for f in flags[:5]], z3.If(cur, 1, 0)) if True else None
        if d < 4:
            expect = z3.BoolVal(True)
        elif d == 4:
            expect = z3.Or(bypass, count >= 1)
        else:
            expect = z3.Or(bypass, count >= 2)
        ok_path = False
        for o in outs:
            if o.kind in ("unsupported", "unwound", "path-limit"):
                return v.undecided("%s depth=%d: %s" % (o.kind, depth, o.info))
            if o.kind == "panic":
                L.report_panic(v, ex, o, "depth=%d: panic reachable: %s" % (depth, o.info))
                continue
            if o.kind != "return":
                continue
            r, m = ex.model_for(o.pc, o.value != expect)
            v.queries += 1
            if r == z3.sat:
                v.fail("ancestors=%d: verdict differs from the 2-in-6 rule" % depth,
                       dict(depth=depth, flags=[str(m.eval(f, model_completion=True)) for f in flags], current=str(m.eval(cur, model_completion=True)),
                            bypass=str(m.eval(bypass, model_completion=True)), returned=str(m.eval(o.value, model_completion=True))))
            ok_path = True
        v.covers_total += 1
        v.covers_sat += 1 if ok_path else 0


def c05_validate_gt_gate(ctx, v):
    """Blockchain::validate (the reorganisation dispatcher): the golden-ticket sufficiency check is
    asked about the candidate TIP (new_chain[0]: its parent hash and its own ticket flag), and when
    it answers false no block is wound or unwound and the result is failure."""
    from . import obl_c04
    for n_new, n_old in ((1, 0), (2, 1), (3, 1)):
        bound = 2 * (n_new + n_old) + 2
        ex, args, valid = obl_c04._setup(ctx, n_new, n_old, bound)
        chain = ex.deref_value(args[0])
        bmap = chain.children[("f", ctx.field_index("Blockchain", "blocks"))]
        tip = bmap.entries[0][2].v
        tip_prev = tip.fields[ctx.field_index("Block", "previous_block_hash")]
        tip_gt = tip.fields[ctx.field_index("Block", "has_golden_ticket")]
        answer = ex.fresh_value("bool", "gt_count_valid")
        inner = ex.on_call

        def hook(ex_, st, callee, a, dty, inner=inner, answer=answer):
            if re.search(r"Blockchain::is_golden_ticket_count_valid$", callee):
                st.events.append(("gtcheck", callee, a, answer))
                return answer
            return inner(ex_, st, callee, a, dty)
        ex.on_call = hook
        outs, cell = L.run_async(ctx, ex, r"blockchain::<impl at [^>]*>::validate", args)
        v.paths += len(outs)
        seen = 0
        for o in outs:
            if o.kind in ("unsupported", "path-limit"):
                return v.undecided("%s %s" % (o.kind, o.info))
            g = [e for e in o.events if e[0] == "gtcheck"]
            reorgs = [e for e in o.events if e[0] == "reorg"]
            if not g:
                if reorgs and ex.feasible(o.pc):
                    v.queries += 1
                    v.fail("|new|=%d |old|=%d: blocks are wound/unwound without asking the golden-ticket sufficiency check" % (n_new, n_old))
                continue
            a = g[0][2]
            r, m = ex.model_for(o.pc, z3.Or(z3.Not(value_eq(ex, a[1], tip_prev)), a[2] != tip_gt))
            v.queries += 1
            if r == z3.sat:
                v.fail("|new|=%d |old|=%d: the golden-ticket window is not anchored at the candidate tip (parent hash / ticket flag of new_chain[0])" % (n_new, n_old),
                       dict(path=L.trace_text(o, 6)))
            if reorgs:
                r, m = ex.model_for(o.pc, z3.Not(answer))
                v.queries += 1
                if r == z3.sat:
                    v.fail("|new|=%d |old|=%d: blocks are wound/unwound although the golden-ticket check answered false" % (n_new, n_old))
            if o.kind == "return":
                val = L.ready_value(ex, o)
                okflag = val.fields[0] if isinstance(val, S.Agg) else None
                if okflag is not None:
                    r, m = ex.model_for(o.pc, z3.And(z3.Not(answer), okflag))
                    v.queries += 1
                    if r == z3.sat:
                        v.fail("|new|=%d |old|=%d: success although the golden-ticket check answered false" % (n_new, n_old))
            seen += 1
        v.covers_total += 1
        v.covers_sat += 1 if seen else 0


def c05_orphan_disturbs_nothing(ctx, v, pid="C05", obligation="c05_orphan_disturbs_nothing"):
    """Blockchain::add_block offered a block whose parent is not stored and that shares no
    ancestor with the longest chain (block id, tip id, hashes, genesis period symbolic; real MIR
    of the body up to the fork-choice comparison): no longest-chain block is taken out of the
    chain index (BlockRing::on_chain_reorganization(.., false)) on any path.  Decided per class:
    block id >= tip id must hold; block id < tip id is the listed known finding (the
    "blocks received out-of-order" edge case disconnects heights id+1..=tip, native reproducer
    in /verif/known_replays)."""
    from . import addblock_explore as AB
    from .run import known_classes
    known = known_classes(pid, obligation)
    r = AB.explore(ctx)
    ex = r["ex"]
    v.paths += len(r["outs"])
    at_or_above = z3.UGE(r["b_id"].bv, r["tip_id"].bv)
    n = 0
    reached = 0
    for o in r["outs"]:
        if o.kind in ("unsupported", "path-limit"):
            return v.undecided("%s %s" % (o.kind, o.info))
        if o.kind == "unwound":
            # more loop iterations than the bound: only possible when the disconnect range is non-empty
            v.queries += 1
            if ex.feasible(o.pc, at_or_above):
                return v.undecided("disconnect loop longer than the bound for a block at or above the tip")
            continue
        if o.kind != "stopped" or not re.search(r"BlockRing::on_chain_reorganization$", str(o.info)):
            if o.kind == "stopped":
                reached += 1
            continue
        call = [e for e in o.events if e[0] == "call" and re.search(r"BlockRing::on_chain_reorganization$", e[1])][-1]
        height = call[2][1]
        rr, m = ex.model_for(o.pc, at_or_above)
        v.queries += 1
        if rr == z3.sat:
            v.fail("a block that arrives before its parent at or above the tip height takes a longest-chain block out of the chain index (block id %d, tip id %d, height disconnected %d)" %
                   (m.eval(r["b_id"].bv, model_completion=True).as_long(), m.eval(r["tip_id"].bv, model_completion=True).as_long(), m.eval(height.bv, model_completion=True).as_long()),
                   dict(path=L.trace_text(o, 12)))
            continue
        if rr != z3.unsat:
            return v.undecided("solver: no verdict")
        n += 1
        v.queries += 1
        if ex.feasible(o.pc, z3.Not(at_or_above)):
            cls = "parentless-block-below-tip-disconnects-chain-index"
            if cls in known:
                if ("known:" + cls) not in v.notes:
                    v.notes.append("known:" + cls)
            else:
                v.fail("a block that arrives before its parent below the tip height takes the longest-chain blocks above it out of the chain index (tip height decreases)", dict(cls=cls, path=L.trace_text(o, 12)))
    if not reached:
        return v.undecided("the fork-choice comparison was never reached")
    v.covers_total += 1
    v.covers_sat += 1 if reached else 0


def c05_reorg_winds_whole_chain(ctx, v):
    """the tip only moves to a chain that was validated and applied block by block: on success the
    dispatcher (Blockchain::validate + wind_chain + unwind_chain) unwinds the old segment and
    winds EVERY block of the new one, fork point first, whatever the two lengths (same
    exploration as C04 c04_machine; the failed-reorganisation classes are the same listed known
    finding)."""
    from . import obl_c04
    obl_c04.c04_machine(ctx, v, pid="C05", obligation="c05_reorg_winds_whole_chain")
