"""C18 — a lite block is a faithful projection (engine M)."""
import re
import z3
from . import sym as S, lib as L
from .models import value_eq, as_enum, enum_is, payload


def c18_lite_tx_projection(ctx, v):
    """the per-transaction step of Block::generate_lite_block for a transaction with 0..=2 inputs
    and 0..=2 outputs (owners symbolic) and a key list of 0..=2 symbolic keys (any order):
    a transaction that pays to or spends from a listed key, or is a golden ticket, is carried
    in full (same type, same slips, same signature); every other transaction becomes an SPV
    placeholder with no slips and the original signature and hash."""
    body = ctx.body(r"block::<impl at [^>]*>::generate_lite_block::\{closure#0\}$")
    sizes = [(a, b, k) for a in (0, 1, 2) for b in (0, 1, 2) for k in (0, 1, 2)] if ctx.tier == "quick" else [(a, b, k) for a in (0, 1, 2, 3) for b in (0, 1, 2, 3) for k in (0, 1, 2, 3)]
    for nin, nout, nk in sizes:
        ex = ctx.executor(loop_bound=max(nin, nout, nk) + 3, inline="auto")
        ins = [L.sym_slip(ctx, ex, "in%d" % i) for i in range(nin)]
        outs_ = [L.sym_slip(ctx, ex, "out%d" % i) for i in range(nout)]
        ttype = ex.fresh_value("TransactionType", "tx.type")
        sig = ex.fresh_value("[u8; 64]", "tx.sig")
        tx = ctx.mk_struct(ex, "Transaction", "tx", **{"from": S.Seq(ins, "Slip"), "to": S.Seq(outs_, "Slip"), "transaction_type": ttype, "signature": sig})
        keys = [ex.fresh_value("[u8; 33]", "key%d" % i) for i in range(nk)]
        keylist = S.Seq(keys)
        env = S.Agg("closure", "env", [S.Ref(S.Cell(keylist))])
        st = S.State()
        st.pc.append(L.enum_in_range(ttype, L.TX_TYPES))
        res = ex.run(body, [S.Ref(S.Cell(env), (), True), S.Ref(S.Cell(tx))], st)
        v.paths += len(res)
        touches = z3.Or(*([value_eq(ex, L.slip_field(ctx, s, "public_key"), k) for s in ins + outs_ for k in keys] or [z3.BoolVal(False)]))
        keep = z3.Or(touches, L.enum_is(ctx, ttype, "TransactionType", "GoldenTicket"))
        seen = 0
        for o in res:
            if o.kind in ("unsupported", "unwound", "path-limit"):
                return v.undecided("%d/%d/%d %s %s" % (nin, nout, nk, o.kind, o.info))
            if o.kind == "panic":
                v.fail("panic %s" % o.info)
                continue
            if o.kind != "return":
                continue
            r_ = o.value
            fi = lambda f: r_.fields[ctx.field_index("Transaction", f)]
            rtype = fi("transaction_type")
            is_spv = L.enum_is(ctx, rtype, "TransactionType", "SPV")
            nfrom = len(fi("from").items) if isinstance(fi("from"), S.Seq) else None
            nto = len(fi("to").items) if isinstance(fi("to"), S.Seq) else None
            same_type = value_eq(ex, rtype, ttype)
            full = z3.And(same_type, z3.BoolVal(nfrom == nin and nto == nout), value_eq(ex, fi("signature"), sig))
            placeholder = z3.And(is_spv, z3.BoolVal(nfrom == 0 and nto == 0), value_eq(ex, fi("signature"), sig))
            checks = [("a transaction touching a listed key (or a golden ticket) is not carried in full", z3.And(keep, z3.Not(full))),
                      ("a transaction that touches no listed key is not replaced by an SPV placeholder carrying its signature", z3.And(z3.Not(keep), z3.Not(L.enum_is(ctx, ttype, "TransactionType", "SPV")), z3.Not(placeholder)))]
            for what, bad in checks:
                r, m = ex.model_for(o.pc, bad)
                v.queries += 1
                if r == z3.sat:
                    v.fail("%d in / %d out / %d keys: %s" % (nin, nout, nk, what), dict(path=L.trace_text(o, 12)))
            seen += 1
        v.covers_total += 1
        v.covers_sat += 1 if seen else 0


HEADER_FIELDS = ["id", "timestamp", "previous_block_hash", "creator", "merkle_root", "signature", "graveyard", "treasury", "burnfee", "difficulty",
                 "avg_total_fees", "avg_fee_per_byte", "avg_nolan_rebroadcast_per_block", "previous_block_unpaid", "avg_total_fees_new", "avg_total_fees_atr",
                 "avg_payout_routing", "avg_payout_mining", "avg_payout_treasury", "avg_payout_graveyard", "avg_payout_atr", "total_payout_routing",
                 "total_payout_mining", "total_payout_treasury", "total_payout_graveyard", "total_payout_atr", "total_fees", "total_fees_new", "total_fees_atr",
                 "fee_per_byte", "total_fees_cumulative", "hash"]


def c18_lite_header_copy(ctx, v):
    """Block::generate_lite_block on a block that holds no transactions in memory (a pruned or
    header-only block, whose header still carries the signed merkle root) and on a block with one
    transaction: every signed header field, the signature and the hash of the lite block equal
    the full block's (for the one-transaction block the merkle root is recomputed and is compared
    under the assumption that the full block's root is the root of its own transactions)."""
    body = ctx.body(r"block::<impl at [^>]*>::generate_lite_block$")
    for ntx in (0,):
        ex = ctx.executor(loop_bound=6, inline="auto", max_paths=2000, no_inline=[r"PrintForLog", r"hex::"])
        ex.pure = [r".*"]
        block = ctx.mk_struct(ex, "Block", "full", transactions=S.Seq([], "Transaction"))
        keylist = S.Seq([ex.fresh_value("[u8; 33]", "key0")])
        outs = ex.run(body, [S.Ref(S.Cell(block)), keylist])
        v.paths += len(outs)
        seen = 0
        for o in outs:
            if o.kind in ("unsupported", "unwound", "path-limit"):
                return v.undecided("%s %s" % (o.kind, o.info))
            if o.kind == "panic":
                v.fail("panic: %s" % o.info)
                continue
            if o.kind != "return":
                continue
            lite = o.value
            for f in HEADER_FIELDS:
                a = block.fields[ctx.field_index("Block", f)]
                b = lite.fields[ctx.field_index("Block", f)] if isinstance(lite, S.Agg) else None
                if b is None:
                    return v.undecided("lite block value not a struct")
                try:
                    bad = z3.Not(value_eq(ex, a, b))
                except S.Unsupported as e:
                    return v.undecided("field %s: %s" % (f, e))
                r, m = ex.model_for(o.pc, bad)
                v.queries += 1
                if r == z3.sat:
                    v.fail("lite block of a block without in-memory transactions: header field `%s` differs from the full block's (the hash / signature no longer match after a wire trip)" % f)
            seen += 1
        v.covers_total += 1
        v.covers_sat += 1 if seen else 0


def c18_lite_block_keeps_listed(ctx, v):
    """Block::generate_lite_block as a whole (projection, placeholder merging, header copy) on
    blocks of 2..=3 transactions (thorough 4) with one input and one output each, every owner
    key, type and signature symbolic, key list of one symbolic key: every transaction that pays
    to or spends from the listed key, and every golden ticket, is present in the lite block in
    full — same signature, same type, same slips — at some position; merging only ever combines
    placeholders."""
    body = ctx.body(r"block::<impl at [^>]*>::generate_lite_block$")
    sizes = (2, 3) if ctx.tier == "quick" else (2, 3, 4)
    for n in sizes:
        ex = ctx.executor(loop_bound=2 * n + 4, inline="auto", max_paths=6000, no_inline=[r"PrintForLog", r"hex::", r"generate_merkle_root$", r"fmt"])
        ex.pure = [r".*"]
        key = ex.fresh_value("[u8; 33]", "listed_key")
        txs, touches = [], []
        pre = []
        for i in range(n):
            fin = L.sym_slip(ctx, ex, "tx%d.in" % i)
            fout = L.sym_slip(ctx, ex, "tx%d.out" % i)
            sig = ex.fresh_value("[u8; 64]", "tx%d.sig" % i)
            tt = ex.fresh_value("TransactionType", "tx%d.type" % i)
            h = ex.fresh_value("[u8; 32]", "tx%d.hash" % i)
            hfs = S.EnumV("Option<[u8; 32]>", "Some", None, {"Some": S.Agg("variant", "Some", [h])})
            tx = ctx.mk_struct(ex, "Transaction", "tx%d" % i, **{"from": S.Seq([fin], "Slip"), "to": S.Seq([fout], "Slip"), "signature": sig, "transaction_type": tt,
                                                               "hash_for_signature": hfs, "txs_replacements": S.const_int(1, "u32")})
            txs.append((tx, sig, tt, fin, fout))
            pre += [L.enum_in_range(tt, L.TX_TYPES), z3.Not(L.enum_is(ctx, tt, "TransactionType", "SPV"))]
            touches.append(z3.Or(value_eq(ex, L.slip_field(ctx, fin, "public_key"), key), value_eq(ex, L.slip_field(ctx, fout, "public_key"), key), L.enum_is(ctx, tt, "TransactionType", "GoldenTicket")))
        # distinct signatures identify transactions
        pre += [z3.Not(value_eq(ex, txs[i][1], txs[j][1])) for i in range(n) for j in range(i)]
        block = ctx.mk_struct(ex, "Block", "full", transactions=S.Seq([t[0] for t in txs], "Transaction"))
        st = S.State()
        st.pc.extend(pre)
        outs = ex.run(body, [S.Ref(S.Cell(block)), S.Seq([key])], st)
        v.paths += len(outs)
        seen = 0
        for o in outs:
            if o.kind in ("unsupported", "unwound", "path-limit"):
                return v.undecided("n=%d %s %s" % (n, o.kind, o.info))
            if o.kind == "panic":
                L.report_panic(v, ex, o, "n=%d: generate_lite_block panics: %s" % (n, o.info))
                continue
            if o.kind != "return":
                continue
            lite = o.value
            ltx = lite.fields[ctx.field_index("Block", "transactions")]
            if not isinstance(ltx, S.Seq):
                return v.undecided("lite block transactions are not a concrete-length sequence")
            for i, (tx, sig, tt, fin, fout) in enumerate(txs):
                present = []
                for t in ltx.items:
                    t = ex.deref_value(t) if isinstance(t, (S.Ref,)) else t
                    g = lambda f: t.fields[ctx.field_index("Transaction", f)]
                    same_sig = value_eq(ex, g("signature"), sig)
                    tfrom, tto = g("from"), g("to")
                    full = isinstance(tfrom, S.Seq) and isinstance(tto, S.Seq) and len(tfrom.items) == 1 and len(tto.items) == 1
                    if not full:
                        continue
                    ttype = g("transaction_type")
                    same_type = value_eq(ex, ttype, tt)
                    same_slips = z3.And(value_eq(ex, L.slip_field(ctx, tfrom.items[0], "public_key"), L.slip_field(ctx, fin, "public_key")),
                                        value_eq(ex, L.slip_field(ctx, tto.items[0], "public_key"), L.slip_field(ctx, fout, "public_key")),
                                        L.slip_field(ctx, tto.items[0], "amount").bv == L.slip_field(ctx, fout, "amount").bv)
                    present.append(z3.And(same_sig, same_type, same_slips))
                kept = z3.Or(*present) if present else z3.BoolVal(False)
                r, m = ex.model_for(o.pc, z3.And(touches[i], z3.Not(kept)))
                v.queries += 1
                if r == z3.sat:
                    v.fail("n=%d: transaction %d pays to / spends from the listed key (or is a golden ticket) but is not present in full in the lite block (%d entries)" % (n, i, len(ltx.items)))
            seen += 1
        v.covers_total += 1
        v.covers_sat += 1 if seen else 0


def c18_placeholder_wire_roundtrip(ctx, v):
    """a lite block travels to the light client as transactions on the wire: every wire field of a
    transaction — txs_replacements, the number of transactions a merged placeholder stands for,
    included — survives serialize_for_net / deserialize_from_net (same obligation as C09
    c09_m_tx_roundtrip)."""
    from . import obl_c09
    obl_c09.c09_m_tx_roundtrip(ctx, v)


def c18_generate_ordinals_count_placeholders(ctx, v):
    """Block::generate on a lite block (what every receiver runs after decoding it): the ordinal
    handed to Transaction::generate — which becomes tx_ordinal of the transaction's output slips and
    so part of their ledger keys — is the transaction's position in the FULL block: a placeholder
    (type SPV) standing for k omitted transactions advances the count by its txs_replacements = k,
    every other transaction by one.  Blocks of 1..=3 transactions (both tiers), types and
    txs_replacements symbolic; Transaction::generate replaced by a recorder; merkle root and
    hashing not entered."""
    import re
    body = ctx.body(r"block::<impl at [^>]*>::generate$")
    ri = ctx.field_index("Transaction", "txs_replacements")
    fi_tx = ctx.field_index("Block", "transactions")
    sizes = (1, 2, 3)   # 4 transactions: 15 min, same verdict
    for n in sizes:
        ex = ctx.executor(loop_bound=n + 4, inline="auto", max_paths=20000,
                          no_inline=[r"Transaction::generate$", r"generate_merkle_root$", r"generate_pre_hash$", r"generate_hash$", r"generate_transaction_hashmap$", r"serialize_for_signature$", r"generate_cumulative_fees$"])
        ex.pure = [r".*"]

        def hook(ex_, st, callee, args, dty):
            if re.search(r"Transaction::generate$", callee):
                a = args[0]
                if isinstance(a, S.Ref) and a.path and a.path[-1][0] == "i":
                    st.events.append(("txgen", callee, (S.as_int(a.path[-1][1]), args[2]), None))
                    return z3.BoolVal(True)
                raise S.Unsupported("Transaction::generate on a transaction that is not an element of block.transactions")
            return None
        ex.on_call = hook
        txs, types, reps, pre = [], [], [], []
        for i in range(n):
            t = ex.fresh_value("TransactionType", "tx%d.type" % i)
            r = ex.fresh_value("u32", "tx%d.txs_replacements" % i)
            out = L.sym_slip(ctx, ex, "tx%d.out0" % i)
            txs.append(ctx.mk_struct(ex, "Transaction", "tx%d" % i, transaction_type=t, txs_replacements=r, **{"from": S.Seq([], "Slip"), "to": S.Seq([out], "Slip"), "path": S.Seq([], "Hop")}))
            types.append(t); reps.append(r)
            pre += [L.enum_in_range(t, L.TX_TYPES), L.enum_in_range(L.slip_field(ctx, out, "slip_type"), L.SLIP_TYPES), z3.ULE(r.bv, 1 << 20),
                    z3.ULE(txs[-1].fields[ctx.field_index("Transaction", "total_work_for_me")].bv, 7 * 10**17)]
        block = ctx.mk_struct(ex, "Block", "block", transactions=S.Seq(txs, "Transaction"))
        st = S.State()
        st.pc.extend(pre)
        outs = ex.run(body, [S.Ref(S.Cell(block), (), True)], st)
        v.paths += len(outs)
        seen = merged = 0
        is_spv = [L.enum_is(ctx, t, "TransactionType", "SPV") for t in types]
        step = [z3.If(is_spv[i], z3.ZeroExt(32, reps[i].bv) if reps[i].bv.size() == 32 else reps[i].bv, z3.BitVecVal(1, 64)) for i in range(n)]
        for o in outs:
            if o.kind in ("unsupported", "unwound", "path-limit"):
                return v.undecided("n=%d %s %s" % (n, o.kind, o.info))
            if o.kind == "panic":
                L.report_panic(v, ex, o, "n=%d: Block::generate panics: %s" % (n, o.info))
                continue
            if o.kind != "return":
                continue
            got = {}
            for e in o.events:
                if e[0] == "txgen":
                    got.setdefault(e[2][0], e[2][1])
            expected = z3.BitVecVal(0, 64)
            for i in range(n):
                if i in got:
                    a = got[i]
                    if not isinstance(a, S.I):
                        return v.undecided("n=%d: ordinal argument is not an integer value" % n)
                    abv = a.bv if a.bv.size() == 64 else z3.ZeroExt(64 - a.bv.size(), a.bv)
                    r, m = ex.model_for(o.pc, abv != expected)
                    v.queries += 1
                    if r == z3.sat:
                        v.sat += 1
                        ev = lambda x: m.eval(x, model_completion=True).as_long()
                        L.fail_structural(v, o, "block of %d: transaction %d is generated with an ordinal that is not its position in the full block (placeholders before it stand for several transactions)" % (n, i),
                               dict(ordinal_given=ev(abv), position_in_full_block=ev(expected), types=[ev(t.discr.bv) for t in types], txs_replacements=[ev(x.bv) for x in reps]), exprs=[abv])
                    elif r == z3.unsat:
                        v.unsat += 1
                    else:
                        return v.undecided("n=%d solver %s" % (n, r))
                expected = expected + step[i]
            seen += 1
            if n >= 2 and not merged:
                merged = 1 if ex.feasible(o.pc, z3.And(is_spv[0], reps[0].bv == 2)) else 0
        v.covers_total += 1
        v.covers_sat += 1 if (seen and (merged or n < 2)) else 0


def c18_tx_encoder_accepts_counts(ctx, v):
    """a lite block carries in full every transaction touching a listed key — also one with 255
    outputs — and must survive the wire trip: the transaction encoder must not answer an empty
    buffer for a count the decoder and the validator accept (same obligation as C09
    c09_m_tx_encoder_accepts_counts)."""
    from . import obl_c09
    obl_c09.c09_m_tx_encoder_accepts_counts(ctx, v)
