"""C06 — a block's identity binds its content and its creator (engine M gates over Block::validate)."""
import re
import z3
from . import sym as S, lib as L, bv_explore as BV
from .models import value_eq


def _is_ghost_path(o):
    return not any(e[0] == "call" and re.search(r"verify_signature$|generate_consensus_values$", e[1]) for e in o.events)


def _block_type_is_ghost(ctx, r, o):
    bt = BV.block_field(ctx, r, o, "block_type")
    return L.enum_is(ctx, bt, "BlockType", "Ghost") if isinstance(bt, S.EnumV) else None


def c06_validate_sig_gate(ctx, v):
    """Block::validate returns true on a full node for a non-ghost block  =>
    verify_signature(&self.pre_hash, &self.signature, &self.creator) was evaluated and true."""
    got = BV.full_node_true_paths(ctx, v)
    if got is None:
        return
    r, sel = got
    ex = r["ex"]
    n_ok = 0
    for o, cond in sel:
        ghost = _block_type_is_ghost(ctx, r, o)
        c2 = z3.And(cond, z3.Not(ghost)) if ghost is not None else cond
        pg = BV.prev_block_is_ghost(ctx, r, o)
        if pg is not None:
            c2 = z3.And(c2, z3.Not(pg))
        if not ex.feasible(o.pc, c2):
            continue
        sigs = [e for e in o.events if e[0] == "call" and re.search(r"verify_signature$", e[1])]
        v.queries += 1
        if not sigs:
            v.fail("Block::validate can return true for a non-ghost block on a full node without evaluating the creator's signature", dict(path=L.trace_text(o, 14)))
            continue
        e = sigs[0]
        a = e[2]
        if not (BV.block_field_ref(ctx, r, a[0], "pre_hash") and BV.block_field_ref(ctx, r, a[1], "signature") and BV.block_field_ref(ctx, r, a[2], "creator")):
            v.fail("verify_signature is not applied to (self.pre_hash, self.signature, self.creator)")
            continue
        rr, m = ex.model_for(o.pc, z3.And(c2, z3.Not(e[3])))
        if rr == z3.sat:
            v.fail("Block::validate returns true although verify_signature returned false")
        else:
            n_ok += 1
    v.covers_total += 1
    v.covers_sat += 1 if n_ok else 0


def c06_validate_root_gate(ctx, v):
    """Block::validate returns true on a full node for a non-ghost block  =>  the merkle root was
    recomputed from the carried transactions (generate_merkle_root on self) and equals
    self.merkle_root."""
    got = BV.full_node_true_paths(ctx, v)
    if got is None:
        return
    r, sel = got
    ex = r["ex"]
    n_ok = 0
    for o, cond in sel:
        ghost = _block_type_is_ghost(ctx, r, o)
        c2 = z3.And(cond, z3.Not(ghost)) if ghost is not None else cond
        pg = BV.prev_block_is_ghost(ctx, r, o)
        if pg is not None:
            c2 = z3.And(c2, z3.Not(pg))
        if not ex.feasible(o.pc, c2):
            continue
        gm = [e for e in o.events if e[0] == "call" and re.search(r"Block::generate_merkle_root$", e[1])]
        v.queries += 1
        if not gm:
            v.fail("Block::validate can return true without recomputing the merkle root from the carried transactions", dict(path=L.trace_text(o, 30)))
            continue
        root = BV.block_field(ctx, r, o, "merkle_root")
        gen = gm[0][3]
        rr, m = ex.model_for(o.pc, z3.And(c2, z3.Not(value_eq(ex, root, gen))))
        if rr == z3.sat:
            v.fail("Block::validate returns true although the recomputed merkle root differs from the header's (transactions not bound by the signed header)",
                   dict(header_root_is_zero=str(m.eval(z3.And(*[z3.Select(root.arr, z3.BitVecVal(i, 64)) == 0 for i in range(32)]), model_completion=True)), path=L.trace_text(o, 12)))
        else:
            n_ok += 1
    v.covers_total += 1
    v.covers_sat += 1 if n_ok else 0


def c06_validate_txs_gate(ctx, v):
    """Block::validate returns true on a full node (non-ghost)  =>  the per-transaction closure was
    applied to all carried transactions (Iterator::all over self.transactions) and answered true."""
    got = BV.full_node_true_paths(ctx, v)
    if got is None:
        return
    r, sel = got
    ex = r["ex"]
    n_ok = 0
    for o, cond in sel:
        ghost = _block_type_is_ghost(ctx, r, o)
        c2 = z3.And(cond, z3.Not(ghost)) if ghost is not None else cond
        pg = BV.prev_block_is_ghost(ctx, r, o)
        if pg is not None:
            c2 = z3.And(c2, z3.Not(pg))
        if not ex.feasible(o.pc, c2):
            continue
        al = [e for e in o.events if e[0] == "call" and re.search(r"as Iterator>::all::<\{closure@saito-core/src/core/consensus/block\.rs", e[1])]
        v.queries += 1
        if not al:
            v.fail("Block::validate can return true without validating the carried transactions", dict(path=L.trace_text(o, 30)))
            continue
        rr, m = ex.model_for(o.pc, z3.And(c2, z3.Not(al[0][3])))
        if rr == z3.sat:
            v.fail("Block::validate returns true although the transaction sweep answered false")
        else:
            n_ok += 1
    v.covers_total += 1
    v.covers_sat += 1 if n_ok else 0


def c06_merkle_commits_every_tx(ctx, v):
    """the leaf construction of MerkleTree::generate for blocks of 1..=3 transactions whose
    txs_replacements field is any value 0..=3 (it comes off the wire): every carried transaction
    contributes at least one leaf, and that leaf carries the transaction's own hash_for_signature
    (or the zero hash if it has none) — no carried transaction is left out of the commitment."""
    body = ctx.body(r"merkle::<impl at [^>]*>::generate$")
    for n in (1, 2, 3):
        ex = ctx.executor(loop_bound=4 * n + 4, inline="auto", max_paths=5000)
        ex.stop_calls = [r"LinkedList::<Box<MerkleTreeNode>>::len$"]
        txs, reps, hashes = [], [], []
        for i in range(n):
            r = ex.fresh_value("u32", "tx%d.txs_replacements" % i)
            h = ex.fresh_value("[u8; 32]", "tx%d.hash" % i)
            hfs = S.EnumV("Option<[u8; 32]>", "Some", None, {"Some": S.Agg("variant", "Some", [h])})
            txs.append(ctx.mk_struct(ex, "Transaction", "tx%d" % i, txs_replacements=r, hash_for_signature=hfs))
            reps.append(r)
            hashes.append(h)
        st = S.State()
        st.pc.extend([z3.ULE(r.bv, 3) for r in reps])
        outs = ex.run(body, [S.Ref(S.Cell(S.Seq(txs, "Transaction")))], st)
        v.paths += len(outs)
        seen = 0
        for o in outs:
            if o.kind in ("unsupported", "unwound", "path-limit"):
                return v.undecided("n=%d %s %s" % (n, o.kind, o.info))
            if o.kind == "panic":
                L.report_panic(v, ex, o, "n=%d panic: %s" % (n, o.info))
                continue
            if o.kind != "stopped":
                continue
            leaves = o.state.frames[0].locals["_3"].v
            if not isinstance(leaves, S.Seq):
                return v.undecided("leaf list not modelled")
            per_tx = dict((i, []) for i in range(n))
            for bx in leaves.items:
                node = ex.deref_value(bx.fields[0]) if isinstance(bx, S.Agg) and bx.kind == "box" else ex.deref_value(bx)
                nt = node.fields[0]
                idx = nt.payload["Transaction"].fields[0] if isinstance(nt, S.EnumV) and "Transaction" in nt.payload else None
                if idx is None:
                    return v.undecided("leaf without a transaction index")
                per_tx[S.as_int(idx)].append(node)
            v.queries += 1
            missing = [i for i in range(n) if not per_tx[i]]
            if missing:
                r, m = ex.model_for(o.pc)
                v.fail("block of %d transactions: transaction %d contributes no leaf to the merkle tree (it is carried by the block but not committed to by the header's root)" % (n, missing[0]),
                       dict(txs_replacements=[m.eval(x.bv, model_completion=True).as_long() for x in reps]))
                continue
            from .models import as_enum, enum_is, payload
            for i in range(n):
                lh = as_enum(ex, per_tx[i][0].fields[1], "Option")
                good = z3.And(enum_is(ex, lh, "Some"), value_eq(ex, payload(ex, lh, "Some"), hashes[i])) if lh.variant != "None" else z3.BoolVal(False)
                r, m = ex.model_for(o.pc, z3.Not(good))
                v.queries += 1
                if r == z3.sat:
                    v.fail("block of %d transactions: the leaf of transaction %d does not carry its hash" % (n, i))
            seen += 1
        v.covers_total += 1
        v.covers_sat += 1 if seen else 0


def c06_merkle_root_recomputed(ctx, v):
    """Block::generate_merkle_root for a block that carries transactions (1..=2 in memory), for
    every combination of the is_browser / is_spv flags: the value returned comes from
    MerkleTree::generate over the block's own transaction list (root of the tree, or zeros when
    there is no tree) — it is never just the header's merkle_root field read back, which would
    turn the commitment comparison of Block::validate into a comparison of the header with
    itself.  (Only a block with no transactions in memory may answer with the stored root.)"""
    body = ctx.body(r"block::<impl at [^>]*>::generate_merkle_root$")
    n_ok = 0
    for n in (1, 2):
        ex = ctx.executor(loop_bound=4, inline="auto", no_inline=[r"MerkleTree::", r"to_hex", r"fmt"])
        ex.pure = [r".*"]
        root = ex.fresh_value("[u8; 32]", "header.merkle_root")
        txs = S.Seq([ctx.mk_struct(ex, "Transaction", "tx%d" % i) for i in range(n)], "Transaction")
        blk = ctx.mk_struct(ex, "Block", "block", merkle_root=root, transactions=txs)
        is_browser, is_spv = z3.Bool("is_browser"), z3.Bool("is_spv")
        outs = ex.run(body, [S.Ref(S.Cell(blk)), is_browser, is_spv], S.State())
        v.paths += len(outs)
        for o in outs:
            if o.kind in ("unsupported", "unwound", "path-limit"):
                return v.undecided("%s %s" % (o.kind, o.info))
            if o.kind != "return":
                continue
            gen = [e for e in o.events if e[0] == "call" and re.search(r"MerkleTree::|merkle::", e[1])]
            v.queries += 1
            if not gen:
                r, m = ex.model_for(o.pc)
                if r == z3.sat:
                    v.fail("generate_merkle_root answers for a block carrying %d transaction(s) without building the merkle tree (is_browser=%s, is_spv=%s)" %
                           (n, m.eval(is_browser, model_completion=True), m.eval(is_spv, model_completion=True)))
                continue
            res = o.value
            if isinstance(res, S.Bytes) and not ex.feasible(o.pc, z3.Not(_same32(res, root))):
                v.fail("generate_merkle_root returns the header's own merkle_root field for a block carrying transactions")
                continue
            n_ok += 1
    v.covers_total += 1
    v.covers_sat += 1 if n_ok else 0


def _same32(a, b):
    return z3.And(*[z3.Select(a.arr, z3.BitVecVal(i, 64)) == z3.Select(b.arr, z3.BitVecVal(i, 64)) for i in range(32)])


def c06_signed_header_covers_commitment(ctx, v):
    """Block::serialize_for_signature — the bytes the creator signs, which Block::validate verifies
    and from which the hash is derived (hash = H(previous_block_hash ‖ pre_hash), pre_hash =
    H(these bytes)) — determine the fields that bind content and creator: for two arbitrary blocks
    whose signing serialisations are equal byte for byte, merkle_root (the transaction
    commitment), previous_block_hash, creator, id and timestamp are equal.  A field left out of the
    signed bytes could be re-stated by a third party under the same signature and the same hash.
    Decided for every value of every header field; independent of the order of the fields."""
    from .models import value_eq
    body = ctx.body(r"block::<impl at [^>]*>::serialize_for_signature$")
    ex = ctx.executor(loop_bound=40, inline="auto", max_paths=2000)
    fields = ("merkle_root", "previous_block_hash", "creator", "id", "timestamp")
    blocks, wires = [], []
    for tag in ("a", "b"):
        b = ctx.mk_struct(ex, "Block", "block_" + tag)
        outs = ex.run(body, [S.Ref(S.Cell(b))], S.State())
        v.paths += len(outs)
        rets = []
        for o in outs:
            if o.kind in ("unsupported", "unwound", "path-limit"):
                return v.undecided("%s %s" % (o.kind, o.info))
            if o.kind == "panic":
                L.report_panic(v, ex, o, "serialize_for_signature panics: %s" % o.info)
            if o.kind == "return":
                rets.append(o)
        if len(rets) != 1 or not isinstance(rets[0].value, S.Bytes):
            return v.undecided("serialize_for_signature: %d returning paths / result is not a byte string" % len(rets))
        blocks.append(b)
        wires.append(rets[0])
    wa, wb = wires[0].value, wires[1].value
    la = z3.simplify(wa.len.bv)
    if not z3.is_bv_value(la):
        return v.undecided("length of the signing serialisation is not a constant")
    n = la.as_long()
    v.notes.append("signing serialisation is %d bytes" % n)
    same = [wa.len.bv == wb.len.bv] + [z3.Select(wa.arr, z3.BitVecVal(i, 64)) == z3.Select(wb.arr, z3.BitVecVal(i, 64)) for i in range(n)]
    pc = list(wires[0].pc) + list(wires[1].pc) + same
    r, _m = ex.model_for(pc)
    v.queries += 1
    v.covers_total += 1
    if r == z3.sat:
        v.covers_sat += 1
    if L.depends_on_unknowns(wires[0]) or L.depends_on_unknowns(wires[1]) or L.mentions_unknowns(*same[1:]):
        return v.undecided("the signing serialisation contains the result of an unmodelled callee")
    for f in fields:
        fa, fb = (b.fields[ctx.field_index("Block", f)] for b in blocks)
        r, m = ex.model_for(pc, z3.Not(value_eq(ex, fa, fb)))
        v.queries += 1
        if r == z3.sat:
            v.sat += 1
            v.fail("two blocks with identical signing bytes (hence the same signature validity and the same hash for the same parent) differ in %s: the signed header does not cover it" % f,
                   dict(field=f, signing_bytes=n))
        elif r == z3.unsat:
            v.unsat += 1
        else:
            return v.undecided("solver %s on field %s" % (r, f))
