"""Builders for symbolic saito-core values and crate-specific models used by several obligations."""
import re
import z3
from . import sym as S
from .models import model, MODELS, deref, value_eq, mk_some, mk_none
from .run import model_values

SLIP_TYPES = 10
TX_TYPES = 9


def sym_slip(ctx, ex, name, **fields):
    v = ctx.mk_struct(ex, "Slip", name, **fields)
    return v


def slip_field(ctx, slip, f):
    return slip.fields[ctx.field_index("Slip", f)]


def enum_in_range(e, n):
    """constraint: symbolic enum discriminant is one of its n variants (0..n-1)"""
    return z3.And(e.discr.bv >= 0, e.discr.bv < n) if isinstance(e.discr, S.I) else z3.BoolVal(True)


def enum_is(ctx, e, ty, variant):
    d = dict(ctx.enums[ty])[variant]
    if e.variant is not None:
        return z3.BoolVal(e.variant == variant)
    return e.discr.bv == z3.BitVecVal(d, e.discr.width)


def utxo_key_of(ctx, ex, slip):
    """the 59-byte utxoset key as laid out by Slip::get_utxoset_key (public_key ‖ block_id ‖
    tx_ordinal ‖ slip_index ‖ amount ‖ slip_type, big endian)"""
    g = lambda f: slip_field(ctx, slip, f)
    arr = z3.K(z3.BitVecSort(64), z3.BitVecVal(0, 8))
    pos = 0
    pk = g("public_key")
    for i in range(33):
        arr = z3.Store(arr, z3.BitVecVal(pos, 64), z3.Select(pk.arr, z3.BitVecVal(i, 64)))
        pos += 1
    def put_int(arr, pos, bvv, nbytes):
        for i in range(nbytes):
            hi = 8 * nbytes - 1 - 8 * i
            arr = z3.Store(arr, z3.BitVecVal(pos + i, 64), z3.Extract(hi, hi - 7, bvv))
        return arr, pos + nbytes
    arr, pos = put_int(arr, pos, g("block_id").bv, 8)
    arr, pos = put_int(arr, pos, g("tx_ordinal").bv, 8)
    arr, pos = put_int(arr, pos, g("slip_index").bv, 1)
    arr, pos = put_int(arr, pos, g("amount").bv, 8)
    st = g("slip_type")
    d = st.discr if isinstance(st.discr, S.I) else S.I(z3.BitVecVal(ex.discr_of(st), 64), True)
    arr, pos = put_int(arr, pos, z3.Extract(7, 0, d.bv), 1)
    assert pos == 59
    return S.Bytes(S.const_int(59, "usize"), arr)


def install_slip_key_model(ctx, ex):
    """Slip::get_utxoset_key as its documented byte layout (cross-checked against the compiled
    function by the Kani obligation c09_utxokey_layout)"""
    def m_key(ex_, st, callee, args, dty, m):
        return utxo_key_of(ctx, ex_, deref(ex_, args[0]))
    ex.models = [(re.compile(r"(?:^|::)Slip::get_utxoset_key$"), m_key)] + list(ex.models)


def coroutine(ctx, ex, fn_pattern, args):
    """coroutine object + poll body of an `async fn` of the crate"""
    body = ctx.body(fn_pattern + r"::\{closure#0\}$")
    ty = "coroutine:" + body.name
    ex.coroutine_bodies[ty] = body
    co = S.EnumV(ty, None, 0, {}, list(args))
    return body, co


def run_async(ctx, ex, fn_pattern, args):
    body, co = coroutine(ctx, ex, fn_pattern, args)
    cell = S.Cell(co)
    outs = ex.run(body, [S.Ref(cell, (), True), S.Opaque("task_context", "Context")])
    return outs, cell


def ready_value(ex, out):
    """value inside Poll::Ready of a returning coroutine path (None if Pending)"""
    v = out.value
    if isinstance(v, S.EnumV) and v.variant == "Ready":
        p = v.payload["Ready"]
        return p.fields[0] if p.fields else S.UNIT
    return None


def coroutine_arg_after(ex, out, struct_name, index=None):
    """reference (in the path's own copy of the state) that the coroutine of a returning / stopped path
    holds to its argument of struct type `struct_name`"""
    co = ex.deref_value(out.state.frames[0].locals["_1"].v)
    cands = list(co.upvars or []) + [f for p in co.payload.values() if isinstance(p, S.Agg) for f in p.fields]
    if index is not None and index < len(co.upvars or []) and isinstance(co.upvars[index], S.Ref):
        cands = [co.upvars[index]] + cands
    for c in cands:
        if isinstance(c, S.Ref):
            try:
                pv = ex.deref_value(c)
            except Exception:
                continue
            if isinstance(pv, S.Agg) and pv.name == struct_name:
                return c
    return None


def calls(out, pattern):
    return [e for e in out.events if e[0] in ("call", "enter") and re.search(pattern, e[1])]


def trace_text(out, limit=40):
    return ["%s %s -> %s" % (f.split("::")[-1], bb, ch) for f, bb, ch in out.state.trace[-limit:]]


UNKNOWN_PREFIXES = ("ret:", "await:", "havoc:", "fcmp!", "float_to_int!", "float!", "uninit!", "appended!", "raw:", "residual!")


def depends_on_unknowns(o):
    """does the path condition mention a value that came from an unmodelled callee / float / havoc?
    such a path may be infeasible in the real program (the unknown is over-approximated)"""
    from z3 import z3util
    for c in o.pc:
        try:
            vs = z3util.get_vars(c)
        except Exception:
            continue
        for x in vs:
            if x.decl().name().startswith(UNKNOWN_PREFIXES):
                return True
    return bool(re.search(r"\[value from: [^\]]*(ret:|await:|havoc:|uninit!|residual)", o.info or ""))


def report_panic(v, ex, o, msg, witness=None):
    """a panic outcome is reported as a failure only when the solver confirms the path AND the path
    does not hinge on an over-approximated unknown; otherwise the obligation becomes undecided"""
    import z3
    r, m = ex.model_for(o.pc)
    v.queries += 1
    if r == z3.unsat:
        return False
    if r != z3.sat or depends_on_unknowns(o):
        v.undecided("a panic path could not be confirmed (%s): %s" % ("solver gave no verdict" if r != z3.sat else "it depends on the result of an unmodelled callee", msg[:160]))
        return False
    v.fail(msg, witness)
    return True


def mentions_unknowns(*exprs):
    """does one of the z3 expressions mention a value that came from an unmodelled callee / float / havoc?"""
    from z3 import z3util
    for e in exprs:
        try:
            vs = z3util.get_vars(e)
        except Exception:
            continue
        if any(x.decl().name().startswith(UNKNOWN_PREFIXES) for x in vs):
            return True
    return False


def fail_structural(v, o, msg, witness=None, exprs=()):
    """post-condition failure of an obligation whose unit is meant to be modelled completely: if the
    failing path (or one of the compared values, `exprs`) hinges on an unmodelled callee's result the
    verdict is 'undecided', not 'fail'"""
    if depends_on_unknowns(o) or mentions_unknowns(*exprs):
        v.undecided("a failing path depends on the result of an unmodelled callee: %s" % msg[:160])
        return False
    v.fail(msg, witness)
    return True
