"""C15 (second sentence) — the common-ancestor estimate derived from the compact fork id is never
later than the true fork point (engine M)."""
import re
import z3
from . import sym as S, lib as L
from .models import mk_some, mk_none

WEIGHTS = [0, 10, 10, 10, 10, 10, 25, 25, 100, 300, 500, 4000, 10000, 20000, 50000, 100000]


def c15_ancestor_not_later(ctx, v):
    """two chains that share blocks 1..=f (f symbolic) and differ afterwards, peer tip P and my
    tip M symbolic with f <= min(P, M) (tips up to 2^40):
        fid = peer.generate_fork_id(P);  a = mine.generate_last_shared_ancestor(P, fid)
    then a <= f  (a = 0 means "no shared ancestor found, sync from the start", also safe).
    The two block rings are functions from heights to hashes, given to the code one sample at a
    time; each new sample is related to all earlier ones as it is drawn: same chain and height
    -> same hash; the two chains at the same height <= f -> same hash; any two different blocks
    differ in every byte pair the fork id samples, and no sampled pair is (0,0) (hash
    coincidences of probability 2^-16 per checkpoint are assumed away — stated).  Both modes
    (peer ahead / peer behind), every break-out point of both loops and every checkpoint
    pattern are covered; no arithmetic panic."""
    gen = ctx.body(r"blockchain::<impl at [^>]*>::generate_fork_id$")
    anc = ctx.body(r"blockchain::<impl at [^>]*>::generate_last_shared_ancestor$")
    f = z3.BitVec("fork_point", 64)
    P = z3.BitVec("peer_tip", 64)
    M = z3.BitVec("my_tip", 64)
    LIMIT = 1 << 40
    pre = [z3.ULE(f, P), z3.ULE(f, M), z3.ULE(P, LIMIT), z3.ULE(M, LIMIT), z3.UGE(P, 1), z3.UGE(M, 1)]
    import itertools
    counter = itertools.count()
    sel = lambda b, k: z3.Select(b.arr, z3.BitVecVal(k, 64))

    def relate(st, side, h, hv):
        facts = [z3.Or(sel(hv, 2 * i) != 0, sel(hv, 2 * i + 1) != 0) for i in range(16)]
        for e in st.events:
            if e[0] != "ring":
                continue
            s2, h2, b2 = e[1], e[2][0].bv, e[2][1]
            all_eq = z3.And(*[sel(hv, k) == sel(b2, k) for k in range(32)])
            pairs_differ = z3.And(*[z3.Or(sel(hv, 2 * i) != sel(b2, 2 * i), sel(hv, 2 * i + 1) != sel(b2, 2 * i + 1)) for i in range(16)])
            same_block = (h == h2) if s2 == side else z3.And(h == h2, z3.ULE(h, f))
            facts.append(z3.If(same_block, all_eq, pairs_differ))
        return facts

    def ring_hook(side, tip):
        def hook(ex_, st, callee, args, dty):
            if re.search(r"BlockRing::get_longest_chain_block_hash_at_block_id$", callee):
                h = args[1]
                present = z3.And(z3.UGE(h.bv, 1), z3.ULE(h.bv, tip))

                def some(ex2, st2, arg):
                    hv = ex2.fresh_value("[u8; 32]", "%s_hash!%d" % (side, next(counter)))
                    st2.pc.extend(relate(st2, side, arg.bv, hv))
                    st2.events.append(("ring", side, [arg, hv], None))
                    return mk_some(dty, hv)
                return ("__fork__", [(present, ("__thunk__", some, h)), (z3.Not(present), mk_none(dty))])
            if re.search(r"Blockchain::get_latest_block_id$|BlockRing::get_latest_block_id$", callee):
                return S.I(tip)
            return None
        return hook

    ex = ctx.executor(loop_bound=20, inline="auto", max_paths=20000, no_inline=[r"get_longest_chain_block_hash_at_block_id$", r"get_latest_block_id$", r"hex::", r"to_hex"])
    ex.on_call = ring_hook("peer", P)
    st = S.State()
    st.pc.extend(pre)
    o1 = ex.run(gen, [S.Ref(S.Cell(S.Opaque("peer_chain", "Blockchain"))), S.I(P)], st)
    v.paths += len(o1)
    total_ok = 0
    for a in o1:
        if a.kind in ("unsupported", "unwound", "path-limit"):
            return v.undecided("generate_fork_id: %s %s" % (a.kind, a.info))
        if a.kind == "panic":
            r, m = ex.model_for(a.pc)
            v.queries += 1
            if r == z3.sat:
                v.fail("generate_fork_id panics: %s" % a.info, dict(peer_tip=m.eval(P, model_completion=True).as_long()))
            continue
        if a.kind != "return":
            continue
        fid = a.value.payload["Some"].fields[0] if isinstance(a.value, S.EnumV) and a.value.variant == "Some" else None
        if fid is None:
            return v.undecided("fork id not Some")
        ex.on_call = ring_hook("mine", M)
        st2 = S.State()
        st2.pc.extend(a.pc)
        st2.events.extend([e for e in a.events if e[0] == "ring"])
        o2 = ex.run(anc, [S.Ref(S.Cell(S.Opaque("my_chain", "Blockchain"))), S.I(P), fid], st2)
        v.paths += len(o2)
        for o in o2:
            if o.kind in ("unsupported", "unwound", "path-limit"):
                return v.undecided("generate_last_shared_ancestor: %s %s" % (o.kind, o.info))
            if o.kind == "panic":
                r, m = ex.model_for(o.pc)
                v.queries += 1
                if r == z3.sat:
                    v.fail("generate_last_shared_ancestor panics: %s" % o.info, dict(peer_tip=m.eval(P, model_completion=True).as_long(), my_tip=m.eval(M, model_completion=True).as_long()))
                continue
            if o.kind != "return":
                continue
            res = o.value
            r, m = ex.model_for(o.pc, z3.UGT(res.bv, f))
            v.queries += 1
            if r == z3.sat:
                ev = lambda x: m.eval(x, model_completion=True).as_long()
                v.fail("the estimated shared ancestor %d is later than the true fork point %d (blocks between them would be skipped)" % (ev(res.bv), ev(f)),
                       dict(peer_tip=ev(P), my_tip=ev(M), fork_point=ev(f), estimate=ev(res.bv)))
            elif r == z3.unknown:
                return v.undecided("solver unknown")
            else:
                total_ok += 1
        ex.on_call = ring_hook("peer", P)
    v.covers_total += 1
    v.covers_sat += 1 if total_ok else 0
