"""C15 (second sentence) — the common-ancestor estimate derived from the compact fork id is never
later than the true fork point (engine M)."""
import re
import z3
from . import sym as S, lib as L
from .models import mk_some, mk_none

WEIGHTS = [0, 10, 10, 10, 10, 10, 25, 25, 100, 300, 500, 4000, 10000, 20000, 50000, 100000]


def c15_ancestor_not_later(ctx, v):
    """two chains that share blocks 1..=f (f symbolic) and differ afterwards — at every height
    above f the two nodes' longest-chain hashes differ in the two bytes the fork id samples
    (a 2^-16 coincidence per checkpoint is assumed away) —, peer tip P and my tip M symbolic with
    f <= min(P, M) and both tips <= 120 (thorough: 600; the sampling loop forks twice per checkpoint, so longer chains are outside the bound):
        fid = peer.generate_fork_id(P);  a = mine.generate_last_shared_ancestor(P, fid)
    then a <= f  (a = 0 means "no shared ancestor found, sync from the start", also safe).
    Both branches (peer ahead / peer behind) and every checkpoint pattern are covered; no
    arithmetic panic."""
    gen = ctx.body(r"blockchain::<impl at [^>]*>::generate_fork_id$")
    anc = ctx.body(r"blockchain::<impl at [^>]*>::generate_last_shared_ancestor$")
    f = z3.BitVec("fork_point", 64)
    P = z3.BitVec("peer_tip", 64)
    M = z3.BitVec("my_tip", 64)
    LIMIT = 120 if ctx.tier == "quick" else 600
    pre = [z3.ULE(f, P), z3.ULE(f, M), z3.ULE(P, LIMIT), z3.ULE(M, LIMIT), z3.UGE(P, 1), z3.UGE(M, 1)]
    import itertools
    counter = itertools.count()

    def ring_hook(side, tip):
        def hook(ex_, st, callee, args, dty):
            if re.search(r"BlockRing::get_longest_chain_block_hash_at_block_id$", callee):
                h = args[1]
                hv = ex_.fresh_value("[u8; 32]", "%s_hash!%d" % (side, next(counter)))
                st.events.append(("ring", side, [h, hv], None))
                present = z3.And(z3.UGE(h.bv, 1), z3.ULE(h.bv, tip))
                return ("__fork__", [(present, mk_some(dty, hv)), (z3.Not(present), mk_none(dty))])
            if re.search(r"Blockchain::get_latest_block_id$|BlockRing::get_latest_block_id$", callee):
                return S.I(tip)
            return None
        return hook

    def chain_facts(events):
        """what the sampled hashes must satisfy: each chain is a function of the height; the two
        chains agree up to the fork point and differ, in every sampled byte pair, above it"""
        samples = [(e[1], e[2][0].bv, e[2][1]) for e in events if e[0] == "ring"]
        sel = lambda b, k: z3.Select(b.arr, z3.BitVecVal(k, 64))
        facts = []
        for x in range(len(samples)):
            for y in range(x):
                (s1, h1, b1), (s2, h2, b2) = samples[x], samples[y]
                same_h = h1 == h2
                all_eq = z3.And(*[sel(b1, k) == sel(b2, k) for k in range(32)])
                if s1 == s2:
                    facts.append(z3.Implies(same_h, all_eq))
                else:
                    facts.append(z3.Implies(z3.And(same_h, z3.ULE(h1, f)), all_eq))
                    facts.append(z3.Implies(z3.And(same_h, z3.UGT(h1, f)), z3.And(*[z3.Or(sel(b1, 2 * i) != sel(b2, 2 * i), sel(b1, 2 * i + 1) != sel(b2, 2 * i + 1)) for i in range(16)])))
        return facts

    # phase 1: the peer computes its fork id
    ex = ctx.executor(loop_bound=20, inline="auto", max_paths=20000, no_inline=[r"get_longest_chain_block_hash_at_block_id$", r"get_latest_block_id$", r"hex::"])
    ex.on_call = ring_hook("peer", P)
    st = S.State()
    st.pc.extend(pre)
    o1 = ex.run(gen, [S.Ref(S.Cell(S.Opaque("peer_chain", "Blockchain"))), S.I(P)], st)
    v.paths += len(o1)
    total_ok = 0
    for a in o1:
        if a.kind in ("unsupported", "unwound", "path-limit"):
            return v.undecided("generate_fork_id: %s %s" % (a.kind, a.info))
        if a.kind == "panic":
            r, m = ex.model_for(a.pc)
            v.queries += 1
            if r == z3.sat:
                v.fail("generate_fork_id panics: %s" % a.info, dict(peer_tip=m.eval(P, model_completion=True).as_long()))
            continue
        if a.kind != "return":
            continue
        fid = a.value.payload["Some"].fields[0] if isinstance(a.value, S.EnumV) and a.value.variant == "Some" else None
        if fid is None:
            return v.undecided("fork id not Some")
        # phase 2: I estimate the ancestor from it
        ex.on_call = ring_hook("mine", M)
        st2 = S.State()
        st2.pc.extend(a.pc)
        st2.events.extend([e for e in a.events if e[0] == "ring"])
        o2 = ex.run(anc, [S.Ref(S.Cell(S.Opaque("my_chain", "Blockchain"))), S.I(P), fid], st2)
        v.paths += len(o2)
        for o in o2:
            if o.kind in ("unsupported", "unwound", "path-limit"):
                return v.undecided("generate_last_shared_ancestor: %s %s" % (o.kind, o.info))
            if o.kind == "panic":
                r, m = ex.model_for(o.pc)
                v.queries += 1
                if r == z3.sat:
                    v.fail("generate_last_shared_ancestor panics: %s" % o.info, dict(peer_tip=m.eval(P, model_completion=True).as_long(), my_tip=m.eval(M, model_completion=True).as_long()))
                continue
            if o.kind != "return":
                continue
            res = o.value
            distinct = chain_facts(o.events)
            r, m = ex.model_for(o.pc + distinct, z3.UGT(res.bv, f))
            v.queries += 1
            if r == z3.sat:
                v.fail("the estimated shared ancestor %d is later than the true fork point %d (blocks between them would be skipped)" % (m.eval(res.bv, model_completion=True).as_long(), m.eval(f, model_completion=True).as_long()),
                       dict(peer_tip=m.eval(P, model_completion=True).as_long(), my_tip=m.eval(M, model_completion=True).as_long(), fork_point=m.eval(f, model_completion=True).as_long(),
                            estimate=m.eval(res.bv, model_completion=True).as_long()))
            elif r == z3.unknown:
                return v.undecided("solver unknown")
            else:
                total_ok += 1
        ex.on_call = ring_hook("peer", P)
    v.covers_total += 1
    v.covers_sat += 1 if total_ok else 0
