"""Native replay of an engine-M counterexample: a generated #[test] against the real saito-core
(real tokio, real ahash, real crypto, hooks guard off) in a scratch crate under /verif/.cache."""
import os, re, shutil, subprocess

CRATE = "/verif/.cache/replay"

CARGO = """[package]
name = "saito-verif-replay"
version = "0.1.0"
edition = "2021"
publish = false

[workspace]

[dependencies]
saito-core = { path = "/repo/saito-core" }
tokio = { version = "1.37.0", features = ["full"] }
"""


def run_native(pid, obligation, test, log):
    name, src = test
    os.makedirs(os.path.join(CRATE, "src"), exist_ok=True)
    os.makedirs(os.path.join(CRATE, "tests"), exist_ok=True)
    open(os.path.join(CRATE, "Cargo.toml"), "w").write(CARGO)
    open(os.path.join(CRATE, "src", "lib.rs"), "w").write("")
    shutil.copy("/repo/Cargo.lock", os.path.join(CRATE, "Cargo.lock"))
    rdir = os.path.join("/verif", "replays", pid)
    os.makedirs(rdir, exist_ok=True)
    rpath = os.path.join(rdir, obligation + ".rs")
    header = "// native replay of a mirsym counterexample for obligation %s (property %s)\n// run by vcheck in %s against the real saito-core\n" % (obligation, pid, CRATE)
    open(rpath, "w").write(header + src)
    open(os.path.join(CRATE, "tests", "replay.rs"), "w").write(src)
    env = dict(os.environ)
    env["CARGO_NET_OFFLINE"] = "true"
    env.pop("RUSTFLAGS", None)
    p = subprocess.run(["cargo", "test", "--offline", "--test", "replay", "--", name, "--exact"], cwd=CRATE, env=env,
                       stdout=subprocess.PIPE, stderr=subprocess.STDOUT, text=True)
    log.write("\n[replay] cargo test %s\n%s\n" % (name, p.stdout[-3000:]))
    m = re.search(r"test result: (\w+)\. (\d+) passed; (\d+) failed", p.stdout)
    if not m and re.search(r"\(signal: \d+", p.stdout) and ("Running tests/replay.rs" in p.stdout or "running 1 test" in p.stdout):
        outcome = True  # the test process was killed (abort on a failed allocation, stack overflow, ...): a failing test
    elif not m or int(m.group(2)) + int(m.group(3)) == 0:
        outcome = None
    else:
        outcome = int(m.group(3)) > 0
    with open(rpath, "a") as f:
        f.write("\n// replay outcome: %s (True = the counterexample reproduces as a failing test)\n" % outcome)
    return outcome, rpath
