"""C07 — every block the node produces is one every node accepts (engine M): the header-field
agreement between Block::create and Block::validate over one shared symbolic ConsensusValues."""
import re
import z3
from z3 import z3util
from . import sym as S, lib as L
from .models import mk_some, mk_none


def _shared(ctx, ex):
    """the shared symbolic world: consensus values and parent block with deterministic symbol names"""
    cv = ctx.mk_struct(ex, "ConsensusValues", "cv")
    prev = ctx.mk_struct(ex, "Block", "prev")
    return cv, prev


def _named(ctx, exf, struct, name):
    """struct whose scalar fields are z3 constants named <name>.<field> (same names in both explorations)"""
    vals = {}
    for f, t in ctx.structs[struct]:
        nt = ctx.norm_type(t)
        if nt in S.INT_TYPES or nt == "bool" or re.fullmatch(r"\[u8; \d+\]", nt):
            vals[f] = exf.fresh_value(nt, "%s.%s" % (name, f))
    return ctx.mk_struct(exf, struct, name, **vals)


UNIVERSAL = ("cv.", "prev.", "previous_block_hash", "current_timestamp", "public_key", "private_key", "parent_is_indexed", "golden_ticket_present")
ASSIGNED = {"id", "previous_block_hash", "timestamp", "creator", "previous_block_unpaid", "total_fees", "total_fees_new", "total_fees_atr", "total_fees_cumulative",
            "avg_total_fees", "avg_total_fees_new", "avg_total_fees_atr", "total_payout_routing", "total_payout_mining", "total_payout_treasury", "total_payout_graveyard",
            "total_payout_atr", "avg_payout_routing", "avg_payout_mining", "avg_payout_treasury", "avg_payout_graveyard", "avg_payout_atr", "avg_fee_per_byte", "fee_per_byte",
            "avg_nolan_rebroadcast_per_block", "burnfee", "difficulty", "treasury", "graveyard"}

def _is_e(var):
    return not var.decl().name().startswith(UNIVERSAL)


def _flatten(cs):
    out = []
    for c in cs:
        c = z3.simplify(c)
        if z3.is_and(c):
            out.extend(_flatten(c.children()))
        elif not z3.is_true(c):
            out.append(c)
    return out


def _eliminate(conj):
    """existential elimination for one accepting path: conjunction `conj` over universal symbols
    (cv.*, prev.*, create's arguments) and existential ones (metadata fields, unmodelled environment
    answers).  Definitions e == t (t free of e) are substituted (for arrays, elementwise equalities
    select(e,i) == select(t,i) over all listed i substitute the array); conjuncts over existential
    symbols only are checked satisfiable on their own and dropped.  Returns (formula over universal
    symbols, leftover mixed conjuncts) or None when the existential part is unsatisfiable."""
    cs = _flatten([conj])
    changed = True
    while changed:
        changed = False
        for c in cs:
            sub = None
            if z3.is_eq(c):
                a, b = c.children()
                for x, y in ((a, b), (b, a)):
                    if z3.is_const(x) and x.decl().kind() == z3.Z3_OP_UNINTERPRETED and _is_e(x) and not any(x.eq(w) for w in z3util.get_vars(y)):
                        sub = (x, y)
                        break
                    if z3.is_select(x) and z3.is_select(y):
                        ax, ay = x.arg(0), y.arg(0)
                        if z3.is_const(ax) and _is_e(ax) and x.arg(1).eq(y.arg(1)) and not any(ax.eq(w) for w in z3util.get_vars(ay)):
                            # elementwise definition: only sound as a choice (we pick e := t), which is all an existential needs
                            sub = (ax, ay)
                            break
            if sub is not None:
                cs = _flatten([z3.substitute(k, sub) for k in cs])
                changed = True
                break
    u_only, e_only, mixed = [], [], []
    for c in cs:
        vs = z3util.get_vars(c)
        es = [w for w in vs if _is_e(w)]
        if not es:
            u_only.append(c)
        elif len(es) == len(vs):
            e_only.append(c)
        else:
            mixed.append(c)
    if e_only:
        s = z3.Solver()
        s.set("timeout", 30000)
        s.add(*e_only)
        if s.check() != z3.sat:
            return None
    return z3.And(*u_only) if u_only else z3.BoolVal(True), mixed


def c07_header_agreement(ctx, v):
    """Block::create's header assignments (every field copied from the consensus values, plus
    treasury, graveyard, previous_block_unpaid, id) are exactly what Block::validate demands for
    the same consensus values and parent: the block built by create is fed to validate, whose
    callee verdicts are set favourable (signature, merkle root, transactions, routing work, golden
    ticket all fine); validate must not return false on any path, for every value of the ~30
    consensus fields, the parent's fields, golden ticket present or absent.
    Assumed (established inside generate_consensus_values, outside the claim):
    cv.total_fees = cv.total_fees_new + cv.total_fees_atr; sums stay within u64."""
    # ---- phase 1: create, up to the end of the header assignments
    ex = ctx.executor(loop_bound=4, inline="auto", max_paths=4000, no_inline=[r"generate_merkle_root$", r"Transaction::", r"sign", r"hash$", r"PrintForLog", r"to_hex"])
    ex.pure = [r".*"]
    ex.stop_calls = [r"Vec::<Transaction>::len$"]
    cv = _named(ctx, ex, "ConsensusValues", "cv")
    prev = _named(ctx, ex, "Block", "prev")
    has_parent = z3.Bool("parent_is_indexed")
    gt_present = z3.Bool("golden_ticket_present")

    def hook1(ex_, st, callee, args, dty):
        if re.search(r"Block::generate_consensus_values$", callee):
            return S.Agg("struct", "ReadyFuture", [ex_.copy_value(cv)])
        if re.search(r"AHashMap::<\[u8; 32\], Block>::get::", callee):
            return ("__fork__", [(has_parent, mk_some(dty, S.Ref(S.Cell(prev)))), (z3.Not(has_parent), mk_none(dty))])
        return None
    ex.on_call = hook1
    gt = S.EnumV("Option<Transaction>", None, S.I(z3.If(gt_present, z3.BitVecVal(1, 64), z3.BitVecVal(0, 64)), True))
    pool = S.Opaque("pool_transactions", "AHashMap")
    prev_hash = ex.fresh_value("[u8; 32]", "previous_block_hash")
    ts = ex.fresh_value("u64", "current_timestamp")
    pk = ex.fresh_value("[u8; 33]", "public_key")
    args = [S.Ref(S.Cell(pool), (), True), prev_hash, S.Ref(S.Cell(S.Opaque("blockchain", "Blockchain"))), ts, S.Ref(S.Cell(pk)), S.Ref(S.Cell(ex.fresh_value("[u8; 32]", "private_key"))), gt,
            S.Ref(S.Cell(S.Opaque("cfg", "dyn Configuration"))), S.Ref(S.Cell(S.Opaque("storage", "Storage")))]
    st = S.State()
    SUP = 7 * 10**17
    g = lambda s, f: s.fields[ctx.field_index("ConsensusValues" if s is cv else "Block", f)]
    st.pc.extend([g(cv, "total_fees").bv == g(cv, "total_fees_new").bv + g(cv, "total_fees_atr").bv] +
                 [z3.ULE(g(cv, f).bv, SUP) for f in ("total_fees_new", "total_fees_atr", "total_payout_treasury", "total_payout_graveyard", "total_payout_atr")] +
                 [z3.ULE(g(prev, f).bv, SUP) for f in ("treasury", "graveyard", "total_fees")] + [z3.ULE(g(prev, "id").bv, 1 << 40),
                  z3.UGE(g(prev, "treasury").bv + g(cv, "total_payout_treasury").bv, g(cv, "total_payout_atr").bv),
                  z3.UGE(g(cv, "total_payout_treasury").bv, g(cv, "total_payout_atr").bv) if False else z3.Implies(z3.Not(has_parent), z3.UGE(g(cv, "total_payout_treasury").bv, g(cv, "total_payout_atr").bv))])
    gi = g(cv, "gt_index")
    st.pc.append((gi.discr.bv != 0) == gt_present)
    # census of a block create assembles: no issuance transaction, a fee transaction only with a golden ticket
    st.pc.append(g(cv, "it_num").bv == 0)
    st.pc.append(z3.Implies(g(cv, "fee_transaction").discr.bv != 0, gt_present))
    body, co = L.coroutine(ctx, ex, r"block::<impl at [^>]*>::create", args)
    outs = ex.run(body, [S.Ref(S.Cell(co), (), True), S.Opaque("cx", "Context")], st)
    v.paths += len(outs)
    built = []
    for o in outs:
        if o.kind in ("unsupported", "unwound", "path-limit"):
            return v.undecided("create: %s %s" % (o.kind, o.info))
        if o.kind == "panic":
            L.report_panic(v, ex, o, "Block::create panics for consensus values within the stated ranges: %s" % o.info)
            continue
        if o.kind != "stopped":
            continue
        cor = ex.deref_value(o.state.frames[0].locals["_1"].v)
        blocks = [f for p in cor.payload.values() if isinstance(p, S.Agg) for f in p.fields if isinstance(f, S.Agg) and f.name.endswith("Block") and f.kind == "struct"]
        blocks += [c.v for c in o.state.frames[0].locals.values() if isinstance(c.v, S.Agg) and c.v.name.endswith("Block") and c.v.kind == "struct"]
        if not blocks:
            return v.undecided("block under construction not found in create's state")
        blk = blocks[0]
        # fields create has not assigned by this point are the metadata generate() computes later: free symbols meta.<field>
        for i, (f, t) in enumerate(ctx.structs["Block"]):
            if f in ASSIGNED:
                continue
            nt = ctx.norm_type(t)
            if nt in S.INT_TYPES or nt == "bool" or re.fullmatch(r"\[u8; \d+\]", nt):
                blk.fields[i] = ex.fresh_value(nt, "meta.%s" % f)
        built.append((o.pc, blk))
    if not built:
        return v.undecided("create never reached the end of its header assignments")
    # ---- phase 2: validate the built block against the same cv / parent
    def validate_all(pc1, blk):
        """'unsat' when for every cv/parent satisfying pc1 some accepting path of validate exists"""
        ex2 = ctx.executor(loop_bound=3, max_paths=6000)
        ex2.pure = [r".*"]

        def hook2(ex_, st_, callee, args_, dty):
            if re.search(r"Block::generate_consensus_values$", callee):
                return S.Agg("struct", "ReadyFuture", [ex_.copy_value(cv)])
            if re.search(r"AHashMap::<\[u8; 32\], Block>::get::", callee):
                return ("__fork__", [(has_parent, mk_some(dty, S.Ref(S.Cell(prev)))), (z3.Not(has_parent), mk_none(dty))])
            if re.search(r"verify_signature$|GoldenTicket::validate$", callee):
                return z3.BoolVal(True)
            if re.search(r"::is_spv_mode$|::is_browser$", callee):
                return z3.BoolVal(False)
            if re.search(r"Block::generate_merkle_root$", callee):
                b = ex_.deref_value(args_[0])
                return ex_.copy_value(b.fields[ctx.field_index("Block", "merkle_root")])
            if re.search(r"as Iterator>::all::<\{closure@saito-core/src/core/consensus/block\.rs", callee):
                return z3.BoolVal(True)
            if re.search(r"BurnFee::return_routing_work_needed_to_produce_block_in_nolan$", callee):
                return S.const_int(0, "u64")
            if re.search(r"Vec::<Transaction>::is_empty$", callee):
                return z3.BoolVal(False)
            return None
        ex2.on_call = hook2
        st2 = S.State()
        pc1 = list(pc1)
        bt = blk.fields[ctx.field_index("Block", "block_type")]
        if isinstance(bt, S.EnumV) and bt.variant is None:
            pc1.append(z3.Not(L.enum_is(ctx, bt, "BlockType", "Ghost")))
        pbt = prev.fields[ctx.field_index("Block", "block_type")]
        if isinstance(pbt, S.EnumV):
            pc1.append(L.enum_in_range(pbt, 4))
            pc1.append(z3.Not(L.enum_is(ctx, pbt, "BlockType", "Ghost")))
        for f in cv.fields:
            if isinstance(f, S.EnumV) and f.variant is None and f.ty.startswith("Option"):
                pc1.append(L.enum_in_range(f, 2))
        st2.pc.extend(pc1)
        body2, co2 = L.coroutine(ctx, ex2, r"block::<impl at [^>]*>::validate",
                                 [S.Ref(S.Cell(blk)), S.Ref(S.Cell(S.Opaque("blockchain", "Blockchain"))), S.Ref(S.Cell(S.Opaque("utxo", "AHashMap"))), S.Ref(S.Cell(S.Opaque("cfg", "dyn Configuration"))),
                                  S.Ref(S.Cell(S.Opaque("storage", "Storage"))), z3.BoolVal(True)])
        outs2 = ex2.run(body2, [S.Ref(S.Cell(co2), (), True), S.Opaque("cx", "Context")], st2)
        v.paths += len(outs2)
        accept = []
        for o in outs2:
            if o.kind in ("unsupported", "unwound", "path-limit"):
                return "undecided", "validate: %s %s" % (o.kind, o.info)
            if o.kind != "return":
                continue
            val = L.ready_value(ex2, o)
            if isinstance(val, S.I):
                val = val.bv != 0
            if not z3.is_bool(val):
                return "undecided", "validate returned a non-boolean %r" % (val,)
            accept.append(z3.And(*(list(o.pc[len(pc1):]) + [val])))
        parts, leftover = [], 0
        for a in accept:
            e = _eliminate(a)
            if e is None:
                continue
            f, mixed = e
            if mixed:
                leftover += 1
                evs = {w.decl().name(): w for c in mixed for w in z3util.get_vars(c) if _is_e(w)}
                f = z3.And(f, z3.Exists(list(evs.values()), z3.And(*mixed)))
            parts.append(f)
        body = z3.Or(*parts) if parts else z3.BoolVal(False)
        s = z3.Solver()
        s.set("timeout", 120000)
        s.add(*pc1)
        s.add(z3.Not(body))
        r = s.check()
        v.queries += 1
        v.notes.append("accepting validate paths %d (%d with leftover mixed conjuncts): %s" % (len(accept), leftover, r))
        if r == z3.sat:
            m = s.model()
            return "sat", dict(golden_ticket=str(m.eval(gt_present, model_completion=True)), parent_indexed=str(m.eval(has_parent, model_completion=True)),
                               model={d.name(): str(m[d]) for d in m.decls() if d.name().startswith(("cv.", "prev.")) and d.arity() == 0 and not z3.is_array(m[d])})
        if r == z3.unsat:
            return "unsat", None
        return "undecided", "solver: %s" % s.reason_unknown()

    agree = 0
    for pc1, blk in built:
        r, info = validate_all(pc1, blk)
        if r == "undecided":
            return v.undecided(info)
        if r == "sat":
            v.fail("a block assembled by Block::create is rejected by Block::validate for the same consensus values and parent, whatever the transaction metadata (header field disagreement)", info)
        else:
            agree += 1
    # vacuity twin: the first built block with one header field off by one must be rejected for some cv
    pc1, blk = built[0]
    twin = ex.copy_value(blk)
    k = ctx.field_index("Block", "avg_fee_per_byte")
    twin.fields[k] = S.I(twin.fields[k].bv + 1, False)
    r, info = validate_all(pc1, twin)
    if r != "sat":
        return v.undecided("vacuity twin (avg_fee_per_byte off by one) was not rejected: %s %s" % (r, info))
    v.covers_total += 1
    v.covers_sat += 1 if agree else 0


def c07_producer_work_gate(ctx, v):
    """Mempool::can_bundle_block (the producer's gate in front of Block::create) answers Some(w)
    on a non-empty chain only when the very requirement Block::validate applies is met: the golden
    ticket count rule was asked about (latest block hash, whether a ticket is supplied) and said
    yes, w is the pool's routing work, and w >= BurnFee::return_routing_work_needed_to_produce_
    block_in_nolan(latest.burnfee, current_timestamp, latest.timestamp, heartbeat) - the same
    callee and the same argument roles validate uses (C08 c08_block_work_gate)."""
    from .models import as_enum, enum_is, payload
    ex = ctx.executor(loop_bound=3, inline="auto", max_paths=3000, no_inline=[r"is_golden_ticket_count_valid", r"get_routing_work_available", r"BurnFee::", r"hash$", r"U256", r"Duration", r"get_latest_block"])
    ex.pure = [r".*"]
    prev = _named(ctx, ex, "Block", "prev")
    has_prev = z3.Bool("chain_has_latest_block")
    gt_present = z3.Bool("golden_ticket_present")
    avail = ex.fresh_value("u64", "routing_work_available")

    def hook(ex_, st, callee, args, dty):
        if re.search(r"Blockchain::get_latest_block$", callee):
            return ("__fork__", [(has_prev, mk_some(dty, S.Ref(S.Cell(prev)))), (z3.Not(has_prev), mk_none(dty))])
        if re.search(r"get_routing_work_available$", callee):
            return ex_.copy_value(avail)
        return None
    ex.on_call = hook
    pool = ctx.mk_struct(ex, "Mempool", "pool")
    gt = S.EnumV("Option<Transaction>", None, S.I(z3.If(gt_present, z3.BitVecVal(1, 64), z3.BitVecVal(0, 64)), True))
    ts = ex.fresh_value("u64", "current_timestamp")
    pk = ex.fresh_value("[u8; 33]", "public_key")
    args = [S.Ref(S.Cell(pool)), S.Ref(S.Cell(S.Opaque("blockchain", "Blockchain"))), ts, S.Ref(S.Cell(gt)), S.Ref(S.Cell(S.Opaque("cfg", "dyn Configuration"))), S.Ref(S.Cell(pk))]
    st = S.State()
    body, co = L.coroutine(ctx, ex, r"mempool::<impl at [^>]*>::can_bundle_block", args)
    outs = ex.run(body, [S.Ref(S.Cell(co), (), True), S.Opaque("cx", "Context")], st)
    v.paths += len(outs)
    n = 0
    for o in outs:
        if o.kind in ("unsupported", "unwound", "path-limit"):
            return v.undecided("%s %s" % (o.kind, o.info))
        if o.kind != "return":
            continue
        val = L.ready_value(ex, o)
        e = as_enum(ex, val, "Option")
        some = enum_is(ex, e, "Some")
        if not ex.feasible(o.pc, z3.And(some, has_prev)):
            continue
        v.queries += 1
        w = payload(ex, e, "Some")
        gtc = [c for c in o.events if c[0] == "call" and re.search(r"is_golden_ticket_count_valid$", c[1])]
        if not gtc:
            v.fail("can_bundle_block answers Some without consulting the golden ticket count rule", dict(path=L.trace_text(o, 12)))
            continue
        a = gtc[0][2]
        if ex.feasible(o.pc, z3.And(some, has_prev, z3.Not(gtc[0][3]))):
            v.fail("can_bundle_block answers Some although the golden ticket count rule said no")
            continue
        flag = a[2] if z3.is_bool(a[2]) else (a[2].bv != 0)
        if ex.feasible(o.pc, z3.And(some, has_prev, flag != gt_present)):
            v.fail("the golden ticket count rule is asked with a ticket flag that is not `a ticket is supplied`")
            continue
        bf = [c for c in o.events if c[0] == "call" and re.search(r"BurnFee::return_routing_work_needed_to_produce_block_in_nolan$", c[1])]
        if not bf:
            v.fail("can_bundle_block answers Some on a non-empty chain without computing the routing work requirement", dict(path=L.trace_text(o, 12)))
            continue
        needed = bf[0][3]
        r, m = ex.model_for(o.pc, z3.And(some, has_prev, z3.Or(z3.ULT(w.bv, needed.bv), w.bv != avail.bv)))
        if r == z3.sat:
            v.fail("can_bundle_block answers Some(w) with w below the routing work required, or w is not the pool's routing work",
                   dict(w=m.eval(w.bv, model_completion=True).as_long(), needed=m.eval(needed.bv, model_completion=True).as_long()))
            continue
        b = bf[0][2]
        want = [("burn fee of the latest block", prev.fields[ctx.field_index("Block", "burnfee")]), ("current timestamp", ts), ("timestamp of the latest block", prev.fields[ctx.field_index("Block", "timestamp")])]
        bad = [nm for (nm, x), y in zip(want, b) if not (isinstance(y, S.I) and z3.eq(z3.simplify(y.bv), z3.simplify(x.bv)))]
        if bad:
            v.fail("the producer's routing work requirement is not computed from the %s" % bad[0])
            continue
        n += 1
    v.covers_total += 1
    v.covers_sat += 1 if n else 0


def c07_pool_work_counter_exact(ctx, v):
    """the routing work can_bundle_block compares with the burn-fee requirement is the work of the
    transactions actually pooled: Mempool::delete_transactions recomputes it exactly and nothing
    is removed from the pool after that in Blockchain::remove_block_transactions (same
    obligation as C14 c14_delete_recomputes_work)."""
    from .obl_c14 import c14_delete_recomputes_work
    return c14_delete_recomputes_work(ctx, v)


def c07_validator_work_gate(ctx, v):
    """the validator's half of the routing-work agreement: Block::validate computes the requirement
    from the PARENT's burn fee and timestamp and this block's timestamp — the very arguments the
    producer's gate uses (c07_producer_work_gate) — and accepts only total_work >= it (same
    obligation as C08 c08_block_work_gate)."""
    from . import obl_c08
    obl_c08.c08_block_work_gate(ctx, v)


def c07_bundle_releases_every_reservation(ctx, v):
    """the producer must release the input reservation of EVERY transaction it bundled, whatever
    its type: the node's own staking transaction enters the pool through the same admission as user
    transactions, and a reservation left behind makes the producer silently drop its next staking
    transaction on the same output (after its block was reorganised away) and assemble a block
    without one — which the validator of every node rejects (same obligation as C14
    c14_bundle_releases_reservations)."""
    from . import obl_c14
    obl_c14.c14_bundle_releases_reservations(ctx, v)
