#!/bin/bash
# run every claimed check (quick tier by default) on the current /repo tree; print one SUMMARY line each
tier=${1:-quick}
cd /verif
for pid in $(python3 -c "import json;print(' '.join(c['property_id'] for c in json.load(open('MANIFEST.json'))['checks']))"); do
  s=$(date +%s)
  bin/vcheck $pid --tier $tier > /tmp/runall_${tier}_$pid.out 2>&1; code=$?
  e=$(date +%s)
  echo "$pid exit=$code $((e-s))s | $(grep -c KNOWN-FINDING /tmp/runall_${tier}_$pid.out) known | $(grep SUMMARY /tmp/runall_${tier}_$pid.out)"
  grep "VIOLATION\|UNDECIDED\|VACUOUS\|NOT-REPRO" /tmp/runall_${tier}_$pid.out | head -5
done
python3-vt - <<'PY'
import json, jsonschema, glob
sch = json.load(open('/root/.vp/EVIDENCE.schema.json'))
for c in json.load(open('/verif/MANIFEST.json'))['checks']:
    try:
        jsonschema.validate(json.load(open(c['evidence_file'])), sch)
    except Exception as e:
        print('EVIDENCE INVALID', c['property_id'], str(e)[:200])
jsonschema.validate(json.load(open('/verif/MANIFEST.json')), json.load(open('/root/.vp/MANIFEST.schema.json')))
print('manifest + evidence validated')
PY
