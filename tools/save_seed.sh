#!/bin/bash
# usage: save_seed.sh <worktree> <name>  -- confirm a seeded change (HEAD-based worktree) and store it under /verif/seeded/<name>
wt=$1; name=$2
/verif/tools/confirm_seed.sh $wt $name > /tmp/confirm-$name.out 2>&1
d=/verif/seeded/$name; mkdir -p $d
cp $wt/SEEDED/patch.diff $wt/SEEDED/demo.diff $d/
python3 - <<PY
import json
m=json.load(open('$wt/SEEDED/meta.json'))
log=open('/tmp/confirm-$name.log').read()
m['confirmed_by_me']={'script':'tools/confirm_seed.sh','result':log.strip().splitlines(),'base':'/repo HEAD at seeding time (includes the fix: commits)'}
m['demo_cmd']=m.get('demo_cmd','').replace('cd $wt && ','')
json.dump(m,open('$d/meta.json','w'),indent=1)
PY
grep "exit=" /tmp/confirm-$name.log | tr '\n' ' '; echo
