#!/usr/bin/env python3
"""Regenerates /verif/MANIFEST.json from obligations.py + manifest_meta.py (kept valid at all times)."""
import json, sys, subprocess
sys.path.insert(0, "/verif")
import obligations as OB
import manifest_meta as MM

checks = []
for pid in OB.ALL_PROPERTY_IDS:
    if pid not in OB.OBLIGATIONS or pid in MM.NOT_APPLICABLE:
        continue
    meta = MM.CHECKS[pid]
    engines = sorted(set(o["engine"] for o in OB.OBLIGATIONS[pid]))
    checks.append({
        "property_id": pid,
        "quick_cmd": "bin/vcheck %s --tier quick" % pid,
        "thorough_cmd": "bin/vcheck %s --tier thorough" % pid,
        "evidence_file": "/verif/evidence/%s.json" % pid,
        "replay_cmd_template": "cat {path}   # .rs: Kani concrete playback / generated native test with its recorded outcome; .json: solver counterexample (branch trace + model)",
        "engine": "+".join(engines),
        "level_claimed": {"category": "model_checking", "text": meta["text"], "design_ref": meta["design_ref"]},
        "level_note": meta["note"],
        "technique": meta["technique"],
    })
hooks_commits = subprocess.run("git -C /repo log --format=%H --grep='^verif hook'", shell=True, stdout=subprocess.PIPE, text=True).stdout.split()
man = {
    "version": 1,
    "setup_cmd": "bash /verif/bin/setup.sh",
    "hooks": {
        "guard": "saito_verif",
        "enable": "RUSTFLAGS=\"--cfg saito_verif\" (set by /verif/bin/vcheck for every cargo kani / playback invocation; engine M reads the MIR of the guard-off build)",
        "baseline_off_cmd": "cd /repo && cargo test --workspace --no-fail-fast --offline",
        "source_commits": hooks_commits,
        "add_only": True,
    },
    "engines": [
        {"name": "K", "path": "/verif/kani", "serves_properties": sorted(p for p in OB.OBLIGATIONS if any(o["engine"] == "K" for o in OB.OBLIGATIONS[p]) and p not in MM.NOT_APPLICABLE),
         "kind_free_text": "Kani 0.68 / CBMC 6.11 bounded model checking of the compiled saito-core code; tokio and ahash replaced by the models in /verif/shims through [patch.crates-io] of the harness workspace; crypto through the saito_verif oracle hook"},
        {"name": "M", "path": "/verif/mirsym", "serves_properties": sorted(p for p in OB.OBLIGATIONS if any(o["engine"] == "M" for o in OB.OBLIGATIONS[p]) and p not in MM.NOT_APPLICABLE),
         "kind_free_text": "mirsym: symbolic execution of rustc's MIR for /repo's current source (regenerated per run), integers as bit-vectors, byte buffers as SMT arrays, callees modelled / inlined / uninterpreted; every verdict is a z3 query; counterexamples are replayed as generated native Rust tests"},
    ],
    "checks": checks,
    "not_applicable": [{"property_id": p, "reason": r} for p, r in sorted(MM.NOT_APPLICABLE.items())],
    "notes": "Every check is bounded: see DESIGN.md and the per-obligation bounds in the evidence files. Known findings: /verif/known_findings.json.",
}
json.dump(man, open("/verif/MANIFEST.json", "w"), indent=1)
print("MANIFEST.json: %d checks, %d not applicable" % (len(checks), len(MM.NOT_APPLICABLE)))
