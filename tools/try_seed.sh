#!/bin/bash
# usage: try_seed.sh <seed dir name> <PID> [vcheck args]  -- apply a seeded patch to /repo, run the check, undo
seed=$1; pid=$2; shift; shift
cd /repo && git apply /verif/seeded/$seed/patch.diff || { echo "APPLY FAILED"; exit 9; }
cd /verif && bin/vcheck $pid "$@" > /tmp/try_$seed.out 2>&1; code=$?
cd /repo && git checkout -- . 
echo "seed=$seed pid=$pid exit=$code"; grep "VIOLATION\|SUMMARY\|NOT-REPRO\|UNDECIDED\|failed:" /tmp/try_$seed.out | head -12
