#!/bin/bash
# usage: confirm_seed.sh <worktree> <name>   -- confirms a seeded change: demo passes without patch, fails with; suite unchanged with patch
wt=$1; name=$2
cd $wt || exit 2
out=/tmp/confirm-$name.log; : > $out
demo_cmd=$(python3 -c "import json;print(json.load(open('SEEDED/meta.json'))['demo_cmd'])")
demo_cmd=${demo_cmd#cd $wt && }
git checkout -q -- . 2>/dev/null; git clean -fdq -e SEEDED -e target saito-core saito-rust saito-wasm saito-spammer
git apply --check SEEDED/patch.diff && git apply --check SEEDED/demo.diff || { echo "APPLY-CHECK-FAIL" >> $out; exit 1; }
git apply SEEDED/demo.diff
echo "== demo without patch: $demo_cmd" >> $out
( eval "$demo_cmd" ) > /tmp/confirm-$name.demo0 2>&1; echo "demo_without_patch_exit=$?" >> $out
git apply SEEDED/patch.diff
( eval "$demo_cmd" ) > /tmp/confirm-$name.demo1 2>&1; echo "demo_with_patch_exit=$?" >> $out
# suite with patch only
git apply -R SEEDED/demo.diff
cargo build --workspace --offline > /tmp/confirm-$name.build 2>&1; echo "build_with_patch_exit=$?" >> $out
cargo test -p saito-core --lib --offline -- --test-threads 8 > /tmp/confirm-$name.suite 2>&1; echo "suite_with_patch_exit=$?" >> $out
grep "^test result" /tmp/confirm-$name.suite >> $out
git checkout -q -- . ; git clean -fdq -e SEEDED -e target saito-core saito-rust saito-wasm saito-spammer
cat $out
