#!/usr/bin/env python3-vt
"""development aid: run the engine-M obligations of the given properties (quick tier) against a
scratch copy of the repository (MIRSYM_DEV_REPO) and print one line per obligation.  Used to try
seeded changes and behaviour-preserving refactorings without touching /repo.  Not a registered
command: verdicts that count come from bin/vcheck on /repo.
usage: MIRSYM_DEV_REPO=/tmp/x tools/dev_check.py C01 C02 ...   (no ids = all claimed)"""
import sys, os, io, time
sys.path.insert(0, "/verif")
import obligations as OB
from mirsym import run

pids = sys.argv[1:] or sorted(OB.OBLIGATIONS)
bad = 0
for pid in pids:
    obs = [o for o in OB.OBLIGATIONS.get(pid, []) if o["engine"] == "M" and "quick" in o["tiers"]]
    if not obs:
        continue
    log = io.StringIO()
    t = time.time()
    res = run.run_obligations(pid, obs, "quick", log)
    for name, r in res.items():
        st = r["status"]
        known = [n for n in r.get("notes", []) if n.startswith("known:")]
        if st != "pass":
            bad += 1
        print("%s %-40s %-9s %5.1fs %s %s" % (pid, name, st, r["time_s"], (r.get("why_undecided") or "")[:160], "; ".join(r.get("failed_checks", [])[:2])[:300]))
print("NOT-PASS", bad)
