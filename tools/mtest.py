import sys, time, importlib
sys.path.insert(0,'/verif')
from mirsym import run
mod=importlib.import_module('mirsym.'+sys.argv[1])
run.ensure_dump(); ctx=run.Ctx(sys.argv[3] if len(sys.argv)>3 else 'quick')
for f in sys.argv[2].split(','):
    v=run.Verdict(); t=time.time()
    try:
        getattr(mod,f)(ctx,v)
    except Exception as e:
        import traceback; traceback.print_exc()
    print(f, v.status, v.why, 'queries',v.queries,'paths',v.paths,'covers',v.covers_sat,v.covers_total,'%.1fs'%(time.time()-t))
    for x in v.failed[:30]: print("   FAIL", x)
    if v.witness: print('   wit', str(v.witness)[:700])
    for n in v.notes[:5]: print('   note', n)
