// native replay of a mirsym counterexample for obligation c09_m_tx_counts_agree (property C09)
// run by vcheck in /verif/.cache/replay against the real saito-core

#[test]
fn replay_c09_tx_counts() {
    use saito_core::core::consensus::transaction::Transaction;
    use saito_core::core::consensus::slip::Slip;
    let mut tx = Transaction::default();
    for _ in 0..69 { tx.from.push(Slip::default()); }
    for _ in 0..255 { tx.to.push(Slip::default()); }
    tx.data = vec![7u8; 64];
    let bytes = tx.serialize_for_net();
    assert!(!bytes.is_empty(), "encoder accepted the transaction");
    let back = Transaction::deserialize_from_net(&bytes);
    assert!(back.is_ok(), "decoder rejects the encoder's own output");
    assert_eq!(back.unwrap().serialize_for_net(), bytes);
}

// replay outcome: True (True = the counterexample reproduces as a failing test)
