// native replay of a mirsym counterexample for obligation c08_total_work (property C08)
// run by vcheck in /verif/.cache/replay against the real saito-core

#[test]
fn replay_c08_total_work() {
    use saito_core::core::consensus::transaction::Transaction;
    use saito_core::core::consensus::hop::Hop;
    let mut tx = Transaction::default();
    tx.path.push(Hop { from: [0,0,0,0,0,0,0,0,0,0,0,0,0,0,0,0,0,0,0,0,0,0,0,0,0,0,0,0,0,0,0,0,0], to: [0,0,0,0,0,0,0,0,0,0,0,0,0,0,0,0,0,0,0,0,0,0,0,0,0,0,0,0,0,0,0,0,0], sig: [0u8; 64] });
    tx.path.push(Hop { from: [0,0,0,0,0,0,0,0,0,0,0,0,0,0,0,0,0,0,0,0,0,0,0,0,0,0,0,0,0,0,0,0,0], to: [0,0,0,0,0,0,0,0,0,0,0,0,0,0,0,0,0,0,0,0,0,0,0,0,0,0,0,0,0,0,0,0,0], sig: [0u8; 64] });
    tx.path.push(Hop { from: [0,0,0,0,0,0,0,0,0,0,0,0,0,0,0,0,0,0,0,0,0,0,0,0,0,0,0,0,0,0,0,0,0], to: [0,0,0,0,0,0,0,0,0,0,0,0,0,0,0,0,0,0,0,0,0,0,0,0,0,0,0,0,0,0,0,0,0], sig: [0u8; 64] });
    tx.path.push(Hop { from: [0,0,0,0,0,0,0,0,0,0,0,0,0,0,0,0,0,0,0,0,0,0,0,0,0,0,0,0,0,0,0,0,0], to: [0,0,0,0,0,0,0,0,0,0,0,0,0,0,0,0,0,0,0,0,0,0,0,0,0,0,0,0,0,0,0,0,0], sig: [0u8; 64] });
    tx.path.push(Hop { from: [0,0,0,0,0,0,0,0,0,0,0,0,0,0,0,0,0,0,0,0,0,0,0,0,0,0,0,0,0,0,0,0,0], to: [0,0,0,0,0,0,0,0,0,0,0,0,0,0,0,0,0,0,0,0,0,0,0,0,0,0,0,0,0,0,0,0,0], sig: [0u8; 64] });
    tx.total_fees = 4971921212062613520u64;
    let creator: [u8; 33] = [0,0,0,0,0,0,0,0,0,0,0,0,0,0,0,0,0,0,0,0,0,0,0,0,0,0,0,0,0,0,0,0,0];
    tx.generate_total_work(&creator);
    // reference value computed by the solver-side oracle (fee halved, rounding up, per extra hop)
    assert_eq!(tx.total_work_for_me, 310745075753913345u64, "routing work differs from the reference for a 5-hop path");
}

// replay outcome: True (True = the counterexample reproduces as a failing test)
