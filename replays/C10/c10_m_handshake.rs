// native replay of a mirsym counterexample for obligation c10_m_handshake (property C10)
// run by vcheck in /verif/.cache/replay against the real saito-core

#[test]
fn replay_c10_handshakechallenge_deserialize() {
    // decoder must return Ok or Err for this buffer; a panic fails the test
    let buf: Vec<u8> = vec![0, 0, 0, 0, 0, 0, 0, 0, 0, 0, 0, 0, 0, 0, 0, 0, 0, 0];
    { use saito_core::core::util::serialize::Serialize; let _ = saito_core::core::msg::handshake::HandshakeChallenge::deserialize(&buf); }
}

// replay outcome: True (True = the counterexample reproduces as a failing test)
