"""Registry of obligations: what each check asks the solver, at which tier, within which bound.

Every entry is one solver-decided assertion over the real code of /repo:
  engine K  — a #[kani::proof] harness in /verif/kani/src/<module>.rs (Kani 0.68 / CBMC 6.11)
  engine M  — a mirsym query (/verif/mirsym): MIR of /repo -> SMT -> z3
`expect_fail` marks the *witness* twin of a known finding (see known_findings.json): it is
expected to come back SAT; its companion harness excludes exactly that class by assumption and
must come back UNSAT.
"""
import subprocess

ALL_PROPERTY_IDS = ["C%02d" % i for i in range(1, 21)]
DEFAULT_TIMEOUT = {"quick": 600, "thorough": 2400}

COMMON_ASSUMPTIONS = [
    "engine K: /verif/shims/tokio (single task, every future Ready at first poll, conflicting re-acquisition of a lock = assertion failure) replaces tokio",
    "engine K: /verif/shims/ahash (association-list map/set, insertion-order iteration) replaces ahash; no obligation depends on iteration order",
    "engine K: Kani models the dev profile (overflow checks on) on x86_64; log macros evaluate no arguments (max level Off)",
    "bounded model checking: verdicts hold for all values inside the stated bounds only; unwinding assertions are on, a too-small bound is reported as undecided",
]
PROPERTY_ASSUMPTIONS = {}
OBLIGATIONS = {}


def engine_versions():
    def v(cmd):
        try:
            return subprocess.run(cmd, shell=True, stdout=subprocess.PIPE, stderr=subprocess.STDOUT, text=True, timeout=20).stdout.strip().splitlines()[0]
        except Exception:
            return "?"
    # engine M uses the z3 Python API of the tooling venv (python3-vt), not the /usr/bin/z3 command-line binary
    return {"kani": v("cargo kani --version 2>/dev/null | grep -v WARNING"), "cbmc": v("cbmc --version"),
            "z3": v("python3-vt -c 'import z3; print(\"z3 \" + z3.get_version_string() + \" (z3-solver Python API, tooling venv)\")' 2>/dev/null | grep -v WARNING")}


def K(pid, name, module, functions, bounds, tiers=("quick", "thorough"), covers=1, **kw):
    o = dict(name=name, module=module, engine="K", functions=functions, bounds=bounds, tiers=tiers, covers=covers)
    o.update(kw)
    OBLIGATIONS.setdefault(pid, []).append(o)
    return o


def M(pid, name, functions, bounds, tiers=("quick", "thorough"), **kw):
    o = dict(name=name, engine="M", functions=functions, bounds=bounds, tiers=tiers)
    o.update(kw)
    OBLIGATIONS.setdefault(pid, []).append(o)
    return o


# ============================================================================== C10
PROPERTY_ASSUMPTIONS["C10"] = [
    "no oracle, no stub: the decoders run exactly as compiled; a counterexample replays natively bit for bit",
    "the peer-facing entry for ghost-chain payloads is Message::deserialize (tag 10); GhostChainSync::deserialize called directly on unchecked bytes is outside the claim",
    "two engines: engine M explores each decoder once with buffer LENGTH and content symbolic (every length up to the stated bound in one exploration, quick tier); engine K (CBMC on the compiled code, exact std semantics) re-decides the cheap fixed-size decoders in the quick tier and Transaction / Block / HandshakeResponse / Message at boundary lengths in the thorough tier (2-8 minutes each: every `?` on io::Error unrolls its recursive drop glue)",
]
MEMCMP = ["--unwindset", "memcmp.0:66"]
TX = ["saito_core::core::consensus::transaction::Transaction::deserialize_from_net", "saito_core::core::consensus::slip::Slip::deserialize_from_net", "saito_core::core::consensus::hop::Hop::deserialize_from_net"]
Q, T, QT = ("quick", "thorough"), ("thorough",), ("quick", "thorough")
for n, tiers in [(93, T), (94, T), (151, T), (152, T), (153, T), (211, T), (223, T), (282, T)]:
    K("C10", "c10_tx_len%03d" % n, "c10", TX, "buffer of exactly %d bytes, every byte symbolic (all count fields included); allocation bound asserted on success" % n,
      tiers=tiers, covers=2 if n in (93, 152, 153, 211, 223, 282) else 1, cbmc_args=MEMCMP, timeout=1500)
K("C10", "c10_tx_short", "c10", TX[:1], "every buffer of length 0..=92, symbolic content: always Err", tiers=T, cbmc_args=MEMCMP, timeout=1500)
K("C10", "c10_tx_counts_152", "c10", TX, "152-byte buffer; the four count fields concrete from a table (3 exact layouts x 4 fields x {+1,-1,255,256,u32::MAX}), other 136 bytes symbolic", tiers=T, cbmc_args=MEMCMP, timeout=2400)
K("C10", "c10_slip_total", "c10", TX[1:2], "every buffer of length 0..=60", covers=2, cbmc_args=MEMCMP)
K("C10", "c10_hop_total", "c10", TX[2:3], "every buffer of length 0..=131", cbmc_args=MEMCMP, tiers=T)
K("C10", "c10_utxokey_total", "c10", ["saito_core::core::consensus::slip::Slip::parse_slip_from_utxokey"], "every 59-byte key", covers=2, cbmc_args=MEMCMP)
K("C10", "c10_version_total", "c10", ["<Version as Serialize>::deserialize"], "every buffer of length 0..=6", covers=2, cbmc_args=MEMCMP)
K("C10", "c10_blockchain_request_total", "c10", ["<BlockchainRequest as Serialize>::deserialize"], "every buffer of length 0..=74", covers=2, cbmc_args=MEMCMP)
K("C10", "c10_challenge_total", "c10", ["<HandshakeChallenge as Serialize>::deserialize"], "every buffer of length 0..=34", covers=2, cbmc_args=MEMCMP)
MSG = ["saito_core::core::msg::message::Message::deserialize"]
for tag, n, tiers in [(1, 32, T), (5, 72, T), (6, 40, T), (7, 0, T), (8, 0, T), (10, 36, T), (10, 37, T), (10, 117, T), (10, 118, T), (10, 119, T),
                      (11, 72, T), (12, 4, T), (13, 5, T), (14, 4, T), (15, 33, T), (15, 66, T)]:
    K("C10", "c10_msg_t%02d_len%02d" % (tag, n), "c10", MSG + (["saito_core::core::msg::ghost_chain_sync::GhostChainSync::deserialize"] if tag == 10 else []),
      "tag %d followed by exactly %d symbolic bytes; decoded message has the tag's type" % (tag, n), tiers=tiers, cbmc_args=MEMCMP, timeout=1500)
K("C10", "c10_msg_short_any_tag", "c10", MSG, "every tag byte except 9, payload of every length 0..=35, symbolic content", covers=3, tiers=T, cbmc_args=MEMCMP, timeout=2400)
K("C10", "c10_msg_empty", "c10", MSG, "the empty buffer", cbmc_args=MEMCMP, tiers=T)
HSR = ["<HandshakeResponse as Serialize>::deserialize", "<Version as Serialize>::deserialize", "PeerService::deserialize_services"]
for n, tiers in [(141, T), (142, T), (143, T)]:
    K("C10", "c10_hsr_len%d" % n, "c10", HSR, "buffer of exactly %d symbolic bytes (url length field symbolic)" % n, tiers=tiers, covers=1 if n == 141 else 2, cbmc_args=MEMCMP, timeout=2400)
K("C10", "c10_hsr_urlfield_146", "c10", HSR, "146-byte buffer, url length field concrete in {4,5,146,147,u32::MAX}, other bytes symbolic", tiers=T, cbmc_args=MEMCMP, timeout=2400)
BLK = ["saito_core::core::consensus::block::Block::deserialize_from_net"] + TX
for n, tiers in [(388, T), (389, T), (404, T), (405, T), (482, T)]:
    K("C10", "c10_block_len%d" % n, "c10", BLK, "buffer of exactly %d symbolic bytes (transaction count and every per-transaction count symbolic)" % n,
      tiers=tiers, covers=1, cbmc_args=MEMCMP, timeout=2400)
K("C10", "c10_gt_len97", "c10", ["saito_core::core::consensus::golden_ticket::GoldenTicket::deserialize_from_net"], "every 97-byte payload", cbmc_args=MEMCMP)
K("C10", "c10_gt_anylen_witness", "c10", ["saito_core::core::consensus::golden_ticket::GoldenTicket::deserialize_from_net"], "every payload of length 0..=98",
  expect_fail="c10_gt_anylen_witness", covers=0, cbmc_args=MEMCMP)
K("C10", "c10_wallet_len65", "c10", ["saito_core::core::consensus::wallet::Wallet::deserialize_from_disk"], "every file of length 65..=70", cbmc_args=MEMCMP, tiers=T)
K("C10", "c10_wallet_short_witness", "c10", ["saito_core::core::consensus::wallet::Wallet::deserialize_from_disk"], "every file of length 0..=64",
  expect_fail="c10_wallet_short_witness", covers=0, cbmc_args=MEMCMP)

# Engine-K harnesses written for the thorough tier that do NOT reach a verdict inside the per-process memory cap
# (14 GB virtual; CBMC aborts, or the harness timeout passes) even at 4 concurrent jobs — measured twice on this
# machine.  They stay in /verif/kani/src/c10.rs but are not registered: an obligation that cannot be decided is
# not part of a claim.  The same decoders are decided at EVERY length up to their bounds by the engine-M
# obligations (c10_m_tx, c10_m_block, c10_m_handshake, c10_m_message).
K_NOT_REACHED = {"c10_block_len405", "c10_block_len482", "c10_hsr_len142", "c10_hsr_len143", "c10_hsr_urlfield_146", "c10_msg_short_any_tag", "c10_msg_t05_len72", "c10_msg_t07_len00",
                 "c10_msg_t08_len00", "c10_msg_t10_len117", "c10_msg_t10_len118", "c10_msg_t10_len119", "c10_msg_t11_len72", "c10_msg_t15_len66", "c10_tx_counts_152", "c10_tx_len282", "c10_tx_short"}
OBLIGATIONS["C10"] = [o for o in OBLIGATIONS["C10"] if o["name"] not in K_NOT_REACHED]

# ============================================================================== C03
PROPERTY_ASSUMPTIONS["C03"] = [
    "inductive steps: each obligation starts from an arbitrary pre-state inside its size bound and performs one operation (RingItem / BlockRing index updates, utxoset wind/unwind of a transaction); plus the composition of steps by the reorganisation dispatcher (shared with C04)",
    "engine K harnesses use concrete container sizes (solver cost grows ~10x per extra element) and a 256-member hash family; engine M obligations use full 32/59-byte symbolic hashes and keys, maps as finite-map models",
    "delivery orders over whole block trees (add_block histories, orphans) are outside the claim; the recovery defects of the dispatcher are listed known findings (same classes as C04)",
]
RI = "saito_core::core::consensus::ringitem::RingItem::"
BR = "saito_core::core::consensus::blockring::BlockRing::"
M34 = ["--unwindset", "memcmp.0:34"]
for k_, tiers in [(1, QT), (2, QT), (3, T)]:
    K("C03", "c03_ringitem_delete_k%d" % k_, "c03", [RI + "delete_block", RI + "add_block"], "RingItem with exactly %d entries (symbolic ids and hash byte, duplicates allowed), every lc_pos in {None, Some(i<k)}, every (id,hash) to delete" % k_, covers=2, cbmc_args=M34, tiers=tiers, timeout=1500)
M("C03", "c03_m_ringitem_reorg", [RI + "on_chain_reorganization"], "RingItem with 0..=3 entries, 32-byte symbolic hashes, lc symbolic")
M("C03", "c03_m_blockring_reorg", [BR + "on_chain_reorganization", RI + "on_chain_reorganization"], "ring of 4 slots holding 2/1/1/1 and 1/2/1/1 entries, every id >= 1, hash, lc, per-slot designation and tip pointer")
M("C03", "c03_m_blockring_delete", ["BlockRing::delete_block", "RingItem::delete_block"], "ring of 4 slots (2/1/1/1 and 1/1/2/1 entries), ids arbitrary u64 consistent with their slot (so also >= ring size), hashes and designations symbolic", covers=2)
M("C03", "c03_m_ringitem_delete", ["RingItem::delete_block"], "slots with 1..=3 entries (thorough 4), pairwise different blocks, symbolic ids / 32-byte hashes, every designation, every deleted position; order-insensitive", covers=1)
M("C03", "c03_m_tx_wind_unwind", ["Transaction::on_chain_reorganization", "Slip::on_chain_reorganization"], "1..=2 inputs x 1..=2 outputs (thorough 0..=3 each), amounts (0 included) and 59-byte keys symbolic, one unrelated utxoset entry; wind and unwind")
M("C03", "c03_unwind_full_before_revert", ["Blockchain::validate", "Blockchain::wind_chain", "Blockchain::unwind_chain"], "segments (2,1) and (3,2), every validity pattern; event order on every path", covers=2)
M("C03", "c03_m_block_reorg_step", ["Block::on_chain_reorganization"], "blocks of 0..=2 transactions, flag and previous flag symbolic: flag stored, every transaction applied/reverted with it", covers=1)
M("C03", "c03_reorg_sequence", ["Blockchain::validate", "Blockchain::wind_chain", "Blockchain::unwind_chain"], "same universe as c04_machine", covers=4)
M("C03", "c03_orphan_disturbs_nothing", ["Blockchain::add_block (async body, up to the fork-choice comparison)"], "same as c05_orphan_disturbs_nothing: every path of the prefix; the disconnect loop cut at its first write; classes block id >= tip id (must hold) and < tip id (known finding)", covers=1)
# ============================================================================== C08
PROPERTY_ASSUMPTIONS["C08"] = [
    "engine M: MIR of /repo's current source (hooks guard off), integers as bit-vectors of their Rust width; hop keys and fee fully symbolic; number of hops concrete per query",
    "logging is off (log level checks return false); `<[u8;33] as PartialEq>::ne` is byte-wise inequality",
    "fee-transaction construction and the payout lottery over real hashes (inside Block::generate_consensus_values) are outside the claim",
]
M("C08", "c08_total_work", ["saito_core::core::consensus::transaction::Transaction::generate_total_work"],
  "routing paths of 0..=5 hops (thorough: 0..=8), each hop's from/to keys 33 symbolic bytes, fee any u64, creator key symbolic; one solver query per returning path and clause")

# ============================================================================== C01
PROPERTY_ASSUMPTIONS["C01"] = [
    "engine M: MIR of /repo's current source; callees outside the encoded body are uninterpreted (fresh result constrained only by the path), so a verdict speaks about control and data dependence inside the encoded bodies",
    "Slip::get_utxoset_key is modelled as its documented 59-byte layout (public_key, block_id, tx_ordinal, slip_index, amount, slip_type, big endian)",
    "std::collections::HashMap / ahash maps are modelled as finite maps with an arbitrary bounded pre-state (one symbolic recorded key) - inductive step over the block's transaction list",
    "history facts (created earlier on the same chain, retention window) are represented only as membership in the utxoset handed to validation",
]
CLO = "saito_core::core::consensus::block::Block::validate::{closure#0}::{closure#0} (the per-transaction closure)"
M("C01", "c01_block_tx_gate", [CLO], "transactions with 0..=2 inputs, every transaction type, every slip type/amount; Transaction::validate's verdict is a free boolean")
M("C01", "c01_block_double_spend", [CLO, "Slip::get_utxoset_key (layout model)"], "transactions with 1..=3 inputs (amounts, types, locations, owners symbolic), one arbitrary key already recorded for the block; three clauses per returning path")
M("C01", "c01_pool_gate", ["saito_core::core::consensus::mempool::Mempool::add_transaction_if_validates (async body, every poll Ready)"], "all paths of the coroutine; Transaction::validate's verdict free")

# ============================================================================== C05
PROPERTY_ASSUMPTIONS["C05"] = [
    "engine M over the two fork-choice kernels; BlockRing::is_empty and get_latest_block_id are free values; the blocks map holds exactly the blocks of the two segments (pairwise distinct hashes)",
    "burn fees are bounded by the total token supply (7e17), so u64 sums of up to 8 of them cannot wrap; larger values are outside the claim",
    "the composition (which segments add_block hands to the kernel, out-of-order arrival, tip height never decreasing over histories) is outside the claim",
]
M("C05", "c05_longest_chain_rule", ["saito_core::core::consensus::blockchain::Blockchain::is_new_chain_the_longest_chain"],
  "new segment 1..=3 blocks x old segment 0..=3 blocks (thorough: up to 4), every id / burn fee / latest id; answer compared with the u128 reference rule")
M("C05", "c05_validate_gt_gate", ["Blockchain::validate (async body; wind_chain / unwind_chain inlined)"], "segments (|new|,|old|) in {(1,0),(2,1),(3,1)}; the check's answer and every block's validity free", covers=3)
M("C05", "c05_orphan_disturbs_nothing", ["Blockchain::add_block (async body, up to the fork-choice comparison)"], "every path of the prefix (about 400); the disconnect loop cut at its first write; classes block id >= tip id (must hold) and < tip id (known finding)", covers=1)
M("C05", "c05_reorg_winds_whole_chain", ["Blockchain::validate", "Blockchain::wind_chain", "Blockchain::unwind_chain"], "same universe as c04_machine: |new| 1..=3 (4), |old| 0..=2 (3), every validity pattern", covers=4)
M("C05", "c05_gt_window", ["saito_core::core::consensus::blockchain::is_golden_ticket_count_valid_"],
  "ancestor chains of depth 0..=6 with every golden-ticket flag pattern, current-block flag and bypass symbolic")

# ---- C10, engine M: decoders over symbolic LENGTH and content (one exploration covers every length up to the bound)
M("C10", "c10_m_tx", ["Transaction::deserialize_from_net", "Slip::deserialize_from_net", "Hop::deserialize_from_net"], "every buffer of length 0..=349 (thorough 0..=546): length, the four count fields and all content symbolic")
M("C10", "c10_m_slip_hop", ["Slip::deserialize_from_net", "Hop::deserialize_from_net"], "every buffer of length 0..=64 / 0..=140")
M("C10", "c10_m_handshake", ["<HandshakeResponse as Serialize>::deserialize", "<HandshakeChallenge as Serialize>::deserialize", "<BlockchainRequest as Serialize>::deserialize", "<Version as Serialize>::deserialize"],
  "every buffer of length 0..=400 (url length field symbolic); String::from_utf8 and the services text parser uninterpreted")
M("C10", "c10_m_message", ["Message::deserialize", "GhostChainSync::deserialize", "ApiMessage::deserialize", "BlockchainRequest::deserialize", "HandshakeChallenge::deserialize"],
  "every tag byte, every payload of length 0..=200; tags 2/3/4 delegate to decoders explored separately; tag 9 (text) uninterpreted")
M("C10", "c10_m_block", ["Block::deserialize_from_net"], "every buffer of length 0..=565 (thorough 0..=725), transaction count and per-transaction counts symbolic; the per-transaction decoder is uninterpreted here (decided by c10_m_tx); every capacity request (with_capacity / reserve / resize / vec![x; n]) on every path bounded by 64 x length + 4096 elements (all engine-M decoder obligations)")

M("C10", "c10_m_peer_service_record", ["<PeerService as TryFrom<String>>::try_from"], "records of any byte length splitting into 1..=5 pieces (piece count a symbolic input, pieces <= length + 1); pieces opaque; native replay", covers=1)
# ============================================================================== C09
PROPERTY_ASSUMPTIONS["C09"] = [
    "engine M over the real encoders/decoders; slices and Vec<u8> are (length, SMT array) pairs, `concat` is array concatenation, to/from_be_bytes are bit-vector extract/concat",
    "claimed formats: Slip (all fields, all 10 types), Transaction predicted size = encoded size, and the Transaction count/size header agreement between encoder, validator and decoder; blocks, messages, snapshots and payload contents are outside this revision's claim",
]
M("C09", "c09_m_slip_roundtrip", ["Slip::serialize_for_net", "Slip::deserialize_from_net"], "every slip: 33-byte key, amount, block id, tx ordinal, slip index, all 10 slip types symbolic; one query per wire field")
M("C09", "c09_m_hop_roundtrip", ["Hop::serialize_for_net", "Hop::deserialize_from_net"], "every hop (from, to, sig symbolic); 130 bytes")
M("C09", "c09_m_tx_roundtrip", ["Transaction::serialize_for_net_with_hop", "Transaction::deserialize_from_net", "Slip::serialize_for_net / deserialize_from_net", "Hop::serialize_for_net / deserialize_from_net"],
  "shapes inputs/outputs/hops in {1/1/0, 2/1/1, 0/2/0, 1/0/1} (thorough: all of 0..=2 each), payload of 0..=6 symbolic bytes, every field of every element symbolic; decode must be Ok and equal fieldwise", covers=4)
M("C09", "c09_m_block_header_roundtrip", ["Block::serialize_for_net(Header)", "Block::deserialize_from_net"], "every value of the 31 header fields on the wire (389 bytes); decode must be Ok and equal fieldwise; native replay", covers=1)
M("C09", "c09_m_message_tag_agreement", ["Message::deserialize", "Message::get_type_value"], "every buffer of length 0..=200, every tag byte: a decoded message is of the variant whose type value is the first byte", covers=1)
M("C09", "c09_m_message_roundtrip", ["Message::serialize", "Message::deserialize"], "BlockHeaderHash, GhostChainRequest, Ping, SPVChain with every value of their fields; fieldwise equality after the round trip", covers=1)
M("C09", "c09_lite_header_copy", ["Block::generate_lite_block", "Block::generate_merkle_root", "Block::new"], "same as c18_lite_header_copy: 32 header fields of a block without in-memory transactions", covers=1)
M("C09", "c09_m_tx_size_prediction", ["Transaction::get_serialized_size", "Transaction::serialize_for_net_with_hop", "Slip::serialize_for_net", "Hop::serialize_for_net"], "0..=2 inputs x 0..=1 outputs x 0..=2 hops (thorough 2/2/3), payload length symbolic below 2^32, all field values symbolic", covers=10)
M("C09", "c09_m_tx_counts_agree", ["Transaction::deserialize_from_net (header section)", "Transaction::serialize_for_net_with_hop (accepted counts: <=255 inputs/outputs)"],
  "count fields symbolic with inputs, outputs <= 255, message <= 2^20, hops <= 64, buffer length exactly the encoded size; element loops cut at the first iteration")
M("C09", "c09_m_tx_encoder_accepts_counts", ["Transaction::serialize_for_net_with_hop (the refusal exits)"], "input / output counts symbolic over the full 64-bit range, hop count <= 2^32, optional extra hop present or not; explored up to the first element encoding", covers=1)

# ============================================================================== C06 / C08 gates / C13 (Block::validate exploration)
BVX = "saito_core::core::consensus::block::Block::validate (async body, every poll Ready; all callees uninterpreted: consensus values, parent block, configuration and crypto verdicts are free values)"
PROPERTY_ASSUMPTIONS["C06"] = [
    "engine M: all paths of Block::validate's body (about 1500) with free callee results; the claim is about paths on a full node (is_spv_mode false) for a block that is not a ghost block and whose parent, if known, is not a ghost block (validate returns true early when the parent is a ghost block - see DESIGN.md)",
    "merkle construction (collision freedom of the tree) and hash derivation are outside this revision's claim: the obligations show that the signed header root is compared with a root recomputed from the carried transactions, that the creator's signature over pre_hash is required, and that every carried transaction is validated",
]
M("C06", "c06_validate_sig_gate", [BVX], "every path of the body returning true; verify_signature's verdict free")
M("C06", "c06_validate_root_gate", [BVX], "every path returning true; generate_merkle_root's result and self.merkle_root free 32-byte values")
M("C06", "c06_merkle_commits_every_tx", ["saito_core::core::consensus::merkle::MerkleTree::generate (leaf construction)"], "blocks of 1..=3 transactions, txs_replacements any value 0..=3 per transaction (4^n patterns), hashes symbolic", covers=3)
M("C06", "c06_merkle_root_recomputed", ["Block::generate_merkle_root"], "blocks carrying 1..=2 transactions, is_browser / is_spv symbolic", covers=1)
M("C06", "c06_signed_header_covers_commitment", ["Block::serialize_for_signature"], "two arbitrary blocks, every value of every header field; the signing serialisation has constant length (209 bytes on this tree), compared byte for byte; decided per field (merkle_root, previous_block_hash, creator, id, timestamp); order of the fields is outside the claim", covers=1)
M("C06", "c06_validate_txs_gate", [BVX], "every path returning true; the transaction sweep's verdict free")
PROPERTY_ASSUMPTIONS["C08"] += ["gates: all paths of Block::validate with free callee results (same exploration and path selection as C06)"]
M("C08", "c08_block_work_gate", [BVX, "BurnFee::return_routing_work_needed_to_produce_block_in_nolan (uninterpreted)"], "every path returning true with a known non-ghost parent; total_work and the requirement free u64")
M("C08", "c08_block_gt_gate", [BVX, "GoldenTicket::validate (uninterpreted)"], "every path returning true on which a golden ticket is examined")
M("C08", "c08_winning_router_eligible", ["Transaction::get_winning_routing_node"], "0..=3 hops (thorough 5), 0..=2 inputs, fee within the token supply, lottery remainder a symbolic input below the aggregate work", covers=1)
M("C08", "c08_requirement_zero_after_two_heartbeats", ["BurnFee::return_routing_work_needed_to_produce_block_in_nolan"], "every parent burn fee, timestamps and heartbeat (u64); the integer gates (misordered timestamps, elapsed >= 2 x heartbeat => 0); the float curve below two heartbeats is an arbitrary value; native replay", covers=1)
M("C08", "c08_routing_path_valid", ["Transaction::validate_routing_path"], "paths of 1..=2 hops (thorough 3), keys / signatures symbolic, one free verify verdict per question; message = tx signature || hop.to checked bytewise", covers=1)
M("C08", "c08_block_counts_work_once", ["Block::generate"], "blocks of 1..=2 transactions (thorough 3), block.total_work before the call symbolic; Transaction::generate replaced by its contract (writes a fresh total_work_for_me <= 7e17); merkle root / hashing not entered", covers=2)
M("C08", "c08_tx_validate_path_gate", ["Transaction::validate"], "types Normal / GoldenTicket / Vip / Bound, 1 input x 1..=2 outputs; verify_signature and validate_routing_path are free verdicts (their own obligations: c01_tx_signature_gate, c08_routing_path_valid)", covers=1)
PROPERTY_ASSUMPTIONS["C13"] = [
    "engine M gates only: the validator requires the block's rebroadcast commitment to equal the recomputed one, and the in-block double-spend scan treats ATR transactions like any other spender. Which outputs are selected for rebroadcast, their amounts, 'exactly once' and expiry over histories are outside the claim",
]
M("C13", "c13_validate_rebroadcast_gate", [BVX], "every path returning true with validate_against_utxo = true; both commitments free values")
M("C13", "c13_generate_commits_every_atr", ["saito_core::core::consensus::block::Block::generate (second sweep)"], "blocks of 1..=2 transactions with 2 outputs each, every transaction type and output slip type symbolic", covers=2)
M("C01", "c01_generate_commits_every_atr", ["saito_core::core::consensus::block::Block::generate (second sweep)"], "same as c13_generate_commits_every_atr: the privileged ATR type cannot bypass the commitment", covers=2)
M("C01", "c01_unwind_full_before_revert", ["Blockchain::unwind_chain (async body)", "Blockchain::wind_chain"], "same as c03_unwind_full_before_revert: event order on every path, |new| 1..=2, |old| 0..=1", covers=2)
M("C01", "c01_ledger_check_switch", ["Blockchain::has_total_supply_loaded", "Blockchain::wind_chain (async body)"], "tip height, genesis period symbolic u64, index content an arbitrary predicate over heights (uninterpreted function); wind_chain: every path of one step on a 2+1 segment", covers=2)
M("C01", "c01_tx_signature_gate", ["Transaction::validate"], "types Normal / GoldenTicket / Vip / Bound, 1 input x 1..=2 outputs, hash, signature, owner key symbolic; verify_signature verdict free, argument identity checked", covers=1)
M("C01", "c01_stake_input_must_exist", ["Blockchain::is_slip_unlocked"], "every 59-byte key; decoded slip of any type / height; ledger answer (absent / present-unspendable / present-spendable) symbolic", covers=1)
M("C02", "c02_generate_commits_every_atr", ["saito_core::core::consensus::block::Block::generate (second sweep)"], "same as c13_generate_commits_every_atr: the ATR type, exempt from the no-mint comparison, cannot bypass the commitment", covers=2)
M("C02", "c02_block_double_spend", ["Block::validate (the per-transaction closure: double-spend scan)"], "same as c01_block_double_spend: 1..=3 inputs, one recorded key", covers=3)
M("C02", "c02_upgrade_recomputes_ledger_keys", ["Block::upgrade_block_to_block_type", "Block::generate", "Transaction::generate", "Transaction::generate_total_fees"], "three steps: upgrade to Full with a disk block of 1..=2 transactions (1 in / 1 out); Block::generate over 1..=2 transactions; Transaction::generate over 1..=2 inputs x 1..=2 outputs of every slip type; disk read, hashing and Slip::generate_utxoset_key itself are stubs (the key layout is c09_utxokey_layout)", covers=1)
M("C13", "c13_pruned_block_selection", ["Block::generate_consensus_values (async body, up to the point where the block leaving the window is loaded)"], "block id and genesis period symbolic; parent block not indexed (its arithmetic is independent and skipped)", covers=1)
M("C13", "c13_nft_group_not_split", ["Block::generate_consensus_values (async body, rebroadcast section: collection pass and regrouping pass)"], "block loaded from disk a symbolic input: one transaction with outputs [Bound, payload of any non-Bound type, Bound], all unspent; amounts within the supply; parent not indexed (multiplier 1)", covers=1)
M("C13", "c13_atr_inputs_checked_against_ledger", ["Transaction::validate_against_utxoset"], "transactions of every type except Fee with 1..=2 inputs; Slip::validate verdicts free", covers=1)
M("C13", "c13_index_tip_follows_reorg", ["BlockRing::on_chain_reorganization", "RingItem::on_chain_reorganization"], "same as c03_m_blockring_reorg: ring of 4 slots, wrap-around included", covers=2)
M("C13", "c13_tx_unwind_restores_inputs", ["Transaction::on_chain_reorganization", "Slip::on_chain_reorganization"], "same as c03_m_tx_wind_unwind: 1..=2 inputs x 1..=2 outputs, every transaction type, finite-map utxoset", covers=8)
M("C13", "c13_atr_inputs_recorded", [CLO], "ATR-typed transactions with 1..=2 inputs, one arbitrary key already recorded for the block")

# ============================================================================== C04 (and the composition half of C03)
PROPERTY_ASSUMPTIONS["C04"] = [
    "engine M: Blockchain::validate with wind_chain and unwind_chain inlined (async bodies, every poll Ready); one symbolic validity bit per new-chain block, constant across re-validations; golden-ticket count valid; no checkpoints; configuration present",
    "every other callee (block upgrade, utxoset / wallet / ring / storage updates) is uninterpreted, logged, and assumed frame-preserving for block ids, hashes and the chain vectors; the wind/unwind steps are read off the BlockRing::on_chain_reorganization(id, hash, lc) events",
    "sizes: |new| 1..=3, |old| 0..=2 with |new| > |old| (thorough: up to 4 / 3); step bound 2(|new|+|old|)+2 loop rounds",
    "wallet slips, stored blocks and the full observable snapshot after a real failed reorganisation are outside the claim",
]
M("C04", "c04_index_cleanup", ["BlockRing::delete_block", "RingItem::delete_block"], "same as c03_m_blockring_delete: rejecting a block removes exactly its (id, hash) from the chain index, for any id", covers=2)
M("C04", "c04_ringitem_delete", ["RingItem::delete_block"], "same as c03_m_ringitem_delete: slots of 1..=3 (4) pairwise different blocks (same id with another hash included)", covers=1)
M("C04", "c04_failure_cleanup_spares_ledger", ["Blockchain::add_block_failure"], "the stored block is an arbitrary block; callees (Block::*, BlockRing::*, Mempool::*, add_block_transactions_back) are not entered: the claim is about what the clean-up hands them", covers=1)
M("C04", "c04_rejected_block_writes_nothing", ["Blockchain::add_block (async body, up to the fork-choice comparison)"], "every path that returns before the fork-choice step (about 10 of 400); block id/hash/parent, tip, genesis period, stored/loading flags symbolic; writes = BlockRing::add_block/on_chain_reorganization/delete_block, blocks.insert/remove", covers=1)
M("C04", "c04_wind_failure_request", ["Blockchain::wind_chain (async body, one step)"], "candidate chains of 2..=3 blocks (thorough 4), failing block at every index that is not the first one wound; the unwind request must list exactly the blocks already wound", covers=1)
M("C04", "c04_machine", ["Blockchain::validate", "Blockchain::wind_chain", "Blockchain::unwind_chain"], "see assumptions; one class per (|new|, |old|, validity pattern forced by the path)", covers=4)

# ============================================================================== C16
PROPERTY_ASSUMPTIONS["C16"] = [
    "inductive step: one selection round (get_blocks_to_fetch_per_peer) from an arbitrary state of one peer's queue that satisfies the invariant #Fetching <= batch size; batch size 1..=3; the invariant is re-established (P1), so the bound holds along every history of rounds",
    "c16_select_step: the queue is given sorted by strictly increasing id, so the stable sort inside the round is modelled as the identity; c16_select_orders_unsorted_queue drops that assumption (arbitrary arrival order, pairwise distinct ids) and executes the sort as a compare-exchange network over the code's own comparison closure (equal ids with hash tie-break are outside the claim); other operations (announcements, mark_as_failed / fetched, remove_entry) and liveness over unbounded histories are outside this revision's claim",
]
M("C16", "c16_mark_as_failed_step", ["BlockchainSyncState::mark_as_failed"], "queues of 1..=3 entries, ids (equal ids allowed) and 32-byte hashes symbolic, every status pattern", covers=3)
M("C16", "c16_picture_no_duplicates", ["BlockchainSyncState::build_peer_block_picture"], "one peer, fetch queue of 2..=3 entries (thorough 4) in any order without duplicates, one announced (id, hash) possibly equal to any queued entry; the final map clean-ups are cut", covers=1)
M("C16", "c16_mark_as_fetched_step", ["BlockchainSyncState::mark_as_fetched"], "two peers, each queue holding the fetched hash (any status, either position) and one other entry; the clean-up call is cut", covers=1)
M("C16", "c16_select_orders_unsorted_queue", ["BlockchainSyncState::get_blocks_to_fetch_per_peer"], "queue of 2..=3 entries (both tiers) in arbitrary order with pairwise distinct ids, statuses / retry counts symbolic, batch size 1..=3; sort_by executed as a bubble network over the real comparison closure (equal ids, i.e. the hash tie-break, outside this obligation)", covers=2)
M("C16", "c16_remove_entry_every_peer", ["BlockchainSyncState::remove_entry"], "two peers, each queue holding the removed hash (any status, either position) and one other entry; the final clean-up of empty queues included; VecDeque::retain and HashMap::retain executed over the real closures", covers=1)
M("C16", "c16_select_step", ["saito_core::core::consensus::blockchain_sync_state::BlockchainSyncState::get_blocks_to_fetch_per_peer"],
  "queues of 1..=3 entries (thorough 4): every status pattern (4^n), ids, retry counters (full u32) and batch size symbolic; ~14 clauses per path", covers=3)

# ============================================================================== C19
PROPERTY_ASSUMPTIONS["C19"] = [
    "inductive steps from an arbitrary wallet satisfying Inv (balance = sum of the amounts of the slips listed as unspent; unspent and staking lists disjoint subsets of the slip map), 0..=3 slips, every unspent/staking layout enumerated (the layout is the shape of the containers; keys, amounts, block ids are symbolic)",
    "all amounts together are within the total token supply (7e17), keys pairwise distinct and well-formed (re-parsing a wallet key succeeds); unspent slips are given in the order the function sorts them into (sort modelled as identity)",
    "agreement with the ledger's spendable outputs, pending transactions, on_chain_reorganization (NFT handling) and window expiry are outside this revision's claim",
]
M("C19", "c19_add_delete_slip", ["Wallet::add_slip", "Wallet::delete_slip"], "wallets with 0..=2 slips in every layout; the slip added / deleted fully symbolic (possibly already present / absent)", covers=10)
M("C19", "c19_find_slips_for_staking", ["Wallet::find_slips_for_staking", "WalletSlip::is_staking_slip_unlocked", "WalletSlip::to_slip"], "wallets with 1..=2 slips (thorough 3) in every unspent/staking layout; staking amount, unlock heights symbolic; Ok and Err paths", covers=5)
M("C19", "c19_remove_old_slips", ["Wallet::remove_old_slips", "Wallet::delete_slip"], "wallets with 1..=2 slips in every layout; bound and creation heights symbolic", covers=4)
M("C19", "c19_generate_slips", ["Wallet::generate_slips"], "wallets with 1..=2 unspent slips (thorough 3); requested amount, latest block id, genesis period symbolic; conservation of inputs/change in u128; funds outside the expiry margin that cover the request are gathered", covers=2)

M("C19", "c19_reorg_records_ledger_location", ["Wallet::on_chain_reorganization (longest-chain branch)"], "block of two transactions: first of any type (SPV placeholder with symbolic txs_replacements included), second paying the wallet; NFT detection answers false", covers=1)
M("C19", "c19_refused_transfer_leaves_wallet", ["Transaction::create_with_multiple_payments"], "one payment, any amount / fee / balance within the supply; Wallet::generate_slips an explicit call event", covers=1)
# ============================================================================== C17
PROPERTY_ASSUMPTIONS["C17"] = [
    "one step: Peer::handle_handshake_response from an arbitrary Peer state and response; the signature check crypto::verify is a free predicate V (consistent: asked once per step), sign / I/O / configuration / version comparison are free; every poll Ready",
    "interleavings of several connections, replay / reflection across connections (the acceptor signs the challenge carried in the response, an attacker-chosen value), Network::handle_handshake_response and the peer collection are outside this revision's claim",
]
M("C17", "c17_response_step", ["saito_core::core::consensus::peers::peer::Peer::handle_handshake_response (async body)", "Peer::mark_as_disconnected", "Version::is_set / is_same_minor_version"],
  "every path of the body (about 200) from a symbolic Peer: status in {Disconnected, Connecting, Connected}, challenge / key / static config present or absent; five clauses per returning path", covers=1)
M("C17", "c17_disconnect_step", ["Peer::mark_as_disconnected"], "arbitrary Peer (status, challenge present or not): afterwards no challenge outstanding and status Disconnected", covers=1)
M("C17", "c17_challenge_issue_step", ["Peer::initiate_handshake (async body)", "Peer::handle_handshake_challenge (async body)"], "arbitrary Peer and received challenge; the 32 random bytes are a symbolic input; recorded challenge = drawn bytes = sent challenge; signed message = received challenge, key = wallet private key", covers=1)
M("C17", "c17_network_gate", ["Network::handle_handshake_response (async body)"], "every path up to the authentication bookkeeping; peer known or not, with or without recorded key, any status; the peer-level step's result a symbolic input", covers=1)

M("C17", "c17_new_peer_step", ["Network::handle_new_peer (async body)"], "index new or with a surviving entry in any status, with or without key / static config", covers=1)
# ============================================================================== C07
PROPERTY_ASSUMPTIONS["C07"] = [
    "producer and validator call the same Block::generate_consensus_values; this claim is conditional on it returning the same ConsensusValues cv on both sides (its determinism over chain state and the transaction set - the fee lottery, ATR selection, smoothing arithmetic - is outside the claim); cv is one fully symbolic struct shared by both explorations",
    "facts about cv established inside generate_consensus_values and assumed here: total_fees = total_fees_new + total_fees_atr, gt_index is Some exactly when a golden ticket is supplied, no issuance transaction, a fee transaction only with a golden ticket, amounts within the token supply, treasury payout covers the ATR payout",
    "the metadata generate() derives from the transactions (hash, merkle root, total work, rebroadcast counters, type flags) and the unmodelled environment answers are existentially quantified: the obligation fails only when NO choice of them lets validate accept, i.e. a header field alone forces the rejection; signature, per-transaction validation, routing-work and golden-ticket verdicts are taken favourable (they are C06/C08/C13's subjects)",
    "a second node instance, mempool contents, chain depth/ATR wrap, and Block::create's transaction assembly after the header assignments are outside the claim",
]
M("C07", "c07_header_agreement", ["Block::create (async body, up to the end of the header assignments)", "Block::validate (async body)", "Block::new"],
  "every value of the ~40 consensus-value fields and of the parent's header; parent indexed or not; golden ticket supplied or not (4 built blocks x about 25 validate paths each); vacuity twin (one header field off by one) must be rejected", covers=1)
M("C07", "c07_producer_work_gate", ["Mempool::can_bundle_block (async body)"], "all paths of the body; latest block present/absent, ticket supplied or not, routing work / timestamps / burn fee symbolic u64; BurnFee and the golden-ticket count rule uninterpreted (argument roles checked)", covers=1)
M("C07", "c07_pool_work_counter_exact", ["Mempool::delete_transactions", "Blockchain::remove_block_transactions"], "pool of two transactions with symbolic work and signatures, stale counter arbitrary, confirmed transaction arbitrary; call order on every path of remove_block_transactions", covers=2)

M("C07", "c07_validator_work_gate", ["Block::validate (async body)"], "same as c08_block_work_gate: all ~1500 paths of Block::validate, argument roles of the requirement computation", covers=1)
M("C07", "c07_bundle_releases_every_reservation", ["Mempool::bundle_block (async body)"], "same as c14_bundle_releases_reservations: the created block a symbolic input, two transactions of symbolic type with one reserved input each; staking transaction / can_bundle / generate answers favourable", covers=1)
# ============================================================================== C18
PROPERTY_ASSUMPTIONS["C18"] = [
    "engine M over the per-transaction projection step of Block::generate_lite_block (the closure mapped over the block's transactions); slice::contains is membership, slice::binary_search is specified only for sorted slices (arbitrary otherwise)",
    "the merging of adjacent placeholders, the recomputability of the merkle root from placeholders and the wire round trip are outside this revision's claim; the header copy is claimed for blocks without in-memory transactions",
]
M("C18", "c18_lite_header_copy", ["Block::generate_lite_block", "Block::generate_merkle_root", "Block::new"], "a block without in-memory transactions (pruned / header-only), every header field symbolic; 32 fields compared", covers=1)
M("C18", "c18_lite_tx_projection", ["saito_core::core::consensus::block::Block::generate_lite_block::{closure#0} and its two nested closures"],
  "transactions with 0..=2 inputs x 0..=2 outputs (thorough 0..=3), every type, owners symbolic 33-byte keys; key lists of 0..=2 (3) symbolic keys in any order", covers=20)

M("C18", "c18_lite_block_keeps_listed", ["Block::generate_lite_block (whole function: projection closure, placeholder merging loop, header copy)"], "blocks of 2..=3 transactions (thorough 4), one input and one output each, owner keys / types / signatures symbolic, one listed key", covers=2)
M("C18", "c18_placeholder_wire_roundtrip", ["Transaction::serialize_for_net_with_hop", "Transaction::deserialize_from_net"], "same as c09_m_tx_roundtrip (txs_replacements among the compared fields)", covers=4)
M("C18", "c18_generate_ordinals_count_placeholders", ["Block::generate"], "blocks of 1..=3 transactions (both tiers), transaction types and txs_replacements (<= 2^20) symbolic; Transaction::generate replaced by a recorder of its ordinal argument; merkle root / hashing not entered", covers=3)
M("C18", "c18_tx_encoder_accepts_counts", ["Transaction::serialize_for_net_with_hop (the refusal exits)"], "same as c09_m_tx_encoder_accepts_counts", covers=1)
# ============================================================================== C14
PROPERTY_ASSUMPTIONS["C14"] = [
    "inductive steps from a pool satisfying Inv (utxo_map holds exactly the inputs of the pooled transactions; pooled transaction = 1 with 1..=2 inputs), routing work and fees within the token supply; async bodies with every poll Ready",
    "golden-ticket typed transactions are kept in a separate collection and are outside add_transaction's claim (it panics on them by design; the caller routes them elsewhere)",
    "bundling (Block::create draining the pool before its fallible checks), validity of every pooled transaction after arbitrary reorganisation histories and interleavings with consensus events are outside this revision's claim",
]
M("C14", "c14_add_transaction_step", ["Mempool::add_transaction (async body)"], "pooled transaction with 1..=2 inputs x new transaction with 1..=2 inputs, every 59-byte key / amount / 64-byte signature / non-GT type symbolic", covers=4)
M("C14", "c14_reorg_revalidates_pool", ["Blockchain::remove_block_transactions", "its retain closure"], "all paths of both bodies, callees uninterpreted")
M("C14", "c14_delete_recomputes_work", ["Mempool::delete_transactions", "Blockchain::remove_block_transactions"], "pool of two transactions with symbolic work and signatures, stale counter arbitrary, confirmed transaction arbitrary; call order on every path of remove_block_transactions", covers=2)
M("C14", "c14_bundle_releases_reservations", ["Mempool::bundle_block (async body)"], "the created block a symbolic input: two transactions of symbolic type with one reserved input each; staking transaction / can_bundle / generate answers favourable", covers=1)
M("C14", "c14_delete_keeps_pooled_reserved", ["Mempool::delete_transactions"], "pool with one transaction (Inv), block carrying a different transaction whose input may or may not be the same output; signatures, keys, type symbolic", covers=1)
M("C14", "c14_hand_back_only_own_blocks", ["Blockchain::add_block_transactions_back (async body)"], "every path; creator key, wallet key, routed_from_peer symbolic", covers=1)
M("C14", "c14_tick_admits_through_validation", ["ConsensusThread::bundle_block (async body, the admission loop)"], "one waiting transaction of any non-golden-ticket type; explored up to the golden-ticket look-up after the loop", covers=1)
M("C14", "c14_delete_releases_reservations", ["Mempool::delete_transactions"], "pool holding one transaction with one input; the block confirms that transaction")

# ============================================================================== C02
PROPERTY_ASSUMPTIONS["C02"] = [
    "per-transaction and per-block arithmetic only (engine M): conservation as an invariant over histories (reorganisations, rebroadcast after the window wraps, staking, payouts) needs add_block executions and is outside the claim",
    "release-build semantics for `Iterator::sum::<u64>()` (wrapping; the dev build panics on the same inputs); amounts fully unconstrained u64 in c02_tx_no_mint; fees within the token supply and payloads below 4 GiB in c02_cv_fee_accounting",
    "verify_signature, routing-path validation and utxoset lookups are free verdicts",
]
M("C02", "c02_tx_no_mint", ["Transaction::generate_total_fees", "Transaction::validate", "Transaction::validate_against_utxoset", "Slip::validate"],
  "user types Normal / GoldenTicket / Vip; (inputs, outputs) in {(1,2),(2,2),(1,3)} (thorough: all of 1..=3 x 1..=3); every amount and slip type symbolic; totals compared in 128-bit arithmetic", covers=3)
M("C02", "c02_cv_fee_accounting", ["Block::generate_consensus_values (async body, the fee/size accounting loop up to the parent lookup)", "Transaction::get_serialized_size"],
  "blocks of 1..=2 transactions, every type (9^n) and fee symbolic", covers=2)

# ============================================================================== C11
PROPERTY_ASSUMPTIONS["C11"] = [
    "single-input, single-handler fragment (engine M): each obligation explores one handler with the peer-controlled input symbolic; sequences of messages, interleavings with honest traffic, rate limiting over time, stalls and 'state used by honest peers is unaffected' are outside the claim",
    "a panic site is reported when it is an assertion / unreachable / explicit panic in the encoded code, or an unwrap of a value that does not come from an uninterpreted callee; unwraps of uninterpreted callee results are not reported (their None/Err may be impossible)",
    "environment answers that a remote peer can drive are modelled as inputs: peer lookup result and the peer's key state (ghost request), Block::deserialize_from_net / Block::generate verdicts on a fetched buffer (verify_block)",
]
M("C11", "c11_routing_dispatch", ["RoutingThread::process_incoming_message (async body)"], "a message of every one of the 15 types; all paths of the dispatch")
M("C11", "c11_handshake_response_total", ["Peer::handle_handshake_response (async body)"], "arbitrary peer state (status, challenge, known key or none, static config or none) and arbitrary response; ~220 paths")
M("C11", "c11_ghost_request_any_peer", ["RoutingThread::process_ghost_chain_request (async body)"], "request from an unknown peer, a peer without a public key yet, and a handshaked peer")
M("C11", "c11_verify_block_total", ["VerificationThread::verify_block (async body)"], "buffer that fails to decode / decodes and fails Block::generate / decodes and generates; id and hash symbolic")
M("C11", "c11_gt_payload", ["Mempool::add_golden_ticket (async body)", "GoldenTicket::deserialize_from_net"], "GoldenTicket-typed transaction with a data field of every length 0..=200")
M("C11", "c11_network_handshake_gate", ["Network::handle_handshake_response (async body)"], "same as c17_network_gate: a rejected response from a peer in any state ends in a plain return, no panic", covers=1)
M("C11", "c11_shared_ancestor_total", ["Blockchain::generate_last_shared_ancestor", "generate_last_shared_ancestor_when_peer_ahead", "generate_last_shared_ancestor_when_peer_behind"], "every peer latest-block id, fork id and own tip (u64); index look-ups answer Some(hash) with the first compared byte equal (the other mismatch case is folded); overflow checks on (dev-profile semantics)", covers=1)
M("C11", "c11_fetched_block_decoder_total", ["Block::deserialize_from_net"], "same as c10_m_block: every buffer of length 0..=565 (thorough 0..=725)", covers=1)
M("C11", "c11_tx_validate_total", ["Transaction::validate"], "every type, 0/1/3 inputs x 0..=2 outputs, slip fields symbolic (amounts within the supply, slip index < 255); signature and routing verdicts explicit free inputs; panics that hinge on other unmodelled callees are not judged", covers=1)
