"""Registry of obligations: what each check asks the solver, at which tier, within which bound.

Every entry is one solver-decided assertion over the real code of /repo:
  engine K  — a #[kani::proof] harness in /verif/kani/src/<module>.rs (Kani 0.68 / CBMC 6.11)
  engine M  — a mirsym query (/verif/mirsym): MIR of /repo -> SMT -> z3
`expect_fail` marks the *witness* twin of a known finding (see known_findings.json): it is
expected to come back SAT; its companion harness excludes exactly that class by assumption and
must come back UNSAT.
"""
import subprocess

ALL_PROPERTY_IDS = ["C%02d" % i for i in range(1, 21)]
DEFAULT_TIMEOUT = {"quick": 600, "thorough": 2400}

COMMON_ASSUMPTIONS = [
    "engine K: /verif/shims/tokio (single task, every future Ready at first poll, conflicting re-acquisition of a lock = assertion failure) replaces tokio",
    "engine K: /verif/shims/ahash (association-list map/set, insertion-order iteration) replaces ahash; no obligation depends on iteration order",
    "engine K: Kani models the dev profile (overflow checks on) on x86_64; log macros evaluate no arguments (max level Off)",
    "bounded model checking: verdicts hold for all values inside the stated bounds only; unwinding assertions are on, a too-small bound is reported as undecided",
]
PROPERTY_ASSUMPTIONS = {}
OBLIGATIONS = {}


def engine_versions():
    def v(cmd):
        try:
            return subprocess.run(cmd, shell=True, stdout=subprocess.PIPE, stderr=subprocess.STDOUT, text=True, timeout=20).stdout.strip().splitlines()[0]
        except Exception:
            return "?"
    return {"kani": v("cargo kani --version 2>/dev/null | grep -v WARNING"), "cbmc": v("cbmc --version"), "z3": v("z3 --version")}


def K(pid, name, module, functions, bounds, tiers=("quick", "thorough"), covers=1, **kw):
    o = dict(name=name, module=module, engine="K", functions=functions, bounds=bounds, tiers=tiers, covers=covers)
    o.update(kw)
    OBLIGATIONS.setdefault(pid, []).append(o)
    return o


def M(pid, name, functions, bounds, tiers=("quick", "thorough"), **kw):
    o = dict(name=name, engine="M", functions=functions, bounds=bounds, tiers=tiers)
    o.update(kw)
    OBLIGATIONS.setdefault(pid, []).append(o)
    return o


# ============================================================================== C10
PROPERTY_ASSUMPTIONS["C10"] = [
    "no oracle, no stub: the decoders run exactly as compiled; a counterexample replays natively bit for bit",
    "the peer-facing entry for ghost-chain payloads is Message::deserialize (tag 10); GhostChainSync::deserialize called directly on unchecked bytes is outside the claim",
    "lengths above the listed ones are outside the claim (quick: boundary lengths derived from the format; thorough: more lengths)",
]
TX = ["saito_core::core::consensus::transaction::Transaction::deserialize_from_net", "saito_core::core::consensus::slip::Slip::deserialize_from_net", "saito_core::core::consensus::hop::Hop::deserialize_from_net"]
for n, tiers in [(93, "qt"), (94, "qt"), (151, "qt"), (152, "qt"), (153, "qt"), (211, "t"), (223, "qt"), (282, "t")]:
    K("C10", "c10_tx_len%03d" % n, "c10", TX, "buffer of exactly %d bytes, every byte symbolic (all count fields included); allocation bound asserted on success" % n,
      tiers=("quick", "thorough") if "q" in tiers else ("thorough",), covers=2 if n in (93, 152, 153, 211, 223, 282) else 1)
K("C10", "c10_tx_short", "c10", TX[:1], "every buffer of length 0..=92, symbolic content: always Err")
K("C10", "c10_slip_total", "c10", TX[1:2], "every buffer of length 0..=60", covers=2)
K("C10", "c10_hop_total", "c10", TX[2:3], "every buffer of length 0..=131")
K("C10", "c10_utxokey_total", "c10", ["saito_core::core::consensus::slip::Slip::parse_slip_from_utxokey"], "every 59-byte key", covers=2)
K("C10", "c10_version_total", "c10", ["<Version as Serialize>::deserialize"], "every buffer of length 0..=6", covers=2)
K("C10", "c10_blockchain_request_total", "c10", ["<BlockchainRequest as Serialize>::deserialize"], "every buffer of length 0..=74", covers=2)
K("C10", "c10_challenge_total", "c10", ["<HandshakeChallenge as Serialize>::deserialize"], "every buffer of length 0..=34", covers=2)
MSG = ["saito_core::core::msg::message::Message::deserialize"]
for tag, n, tiers in [(1, 32, "qt"), (5, 72, "qt"), (6, 40, "qt"), (7, 0, "qt"), (8, 0, "t"), (10, 36, "qt"), (10, 37, "t"), (10, 117, "qt"), (10, 118, "qt"), (10, 119, "t"),
                      (11, 72, "qt"), (12, 4, "qt"), (13, 5, "t"), (14, 4, "t"), (15, 33, "qt"), (15, 66, "t")]:
    K("C10", "c10_msg_t%02d_len%02d" % (tag, n), "c10", MSG + (["saito_core::core::msg::ghost_chain_sync::GhostChainSync::deserialize"] if tag == 10 else []),
      "tag %d followed by exactly %d symbolic bytes; decoded message has the tag's type" % (tag, n),
      tiers=("quick", "thorough") if "q" in tiers else ("thorough",))
K("C10", "c10_msg_short_any_tag", "c10", MSG, "every tag byte except 9, payload of every length 0..=35, symbolic content", covers=3)
K("C10", "c10_msg_empty", "c10", MSG, "the empty buffer")
HSR = ["<HandshakeResponse as Serialize>::deserialize", "<Version as Serialize>::deserialize", "PeerService::deserialize_services"]
for n, tiers in [(141, "qt"), (142, "qt"), (143, "qt"), (145, "t")]:
    K("C10", "c10_hsr_len%d" % n, "c10", HSR, "buffer of exactly %d symbolic bytes (url length field symbolic)" % n,
      tiers=("quick", "thorough") if "q" in tiers else ("thorough",), covers=0 if n == 141 else 1)
BLK = ["saito_core::core::consensus::block::Block::deserialize_from_net"] + TX
for n, tiers in [(388, "qt"), (389, "qt"), (404, "qt"), (405, "t"), (481, "t"), (482, "qt"), (483, "t")]:
    K("C10", "c10_block_len%d" % n, "c10", BLK, "buffer of exactly %d symbolic bytes (transaction count and every per-transaction count symbolic)" % n,
      tiers=("quick", "thorough") if "q" in tiers else ("thorough",), covers=0 if n in (388, 404, 405, 481) else 1)
K("C10", "c10_gt_len97", "c10", ["saito_core::core::consensus::golden_ticket::GoldenTicket::deserialize_from_net"], "every 97-byte payload")
K("C10", "c10_gt_anylen_witness", "c10", ["saito_core::core::consensus::golden_ticket::GoldenTicket::deserialize_from_net"], "every payload of length 0..=98",
  expect_fail="c10_gt_anylen_witness", covers=0)
K("C10", "c10_wallet_len65", "c10", ["saito_core::core::consensus::wallet::Wallet::deserialize_from_disk"], "every file of length 65..=70")
K("C10", "c10_wallet_short_witness", "c10", ["saito_core::core::consensus::wallet::Wallet::deserialize_from_disk"], "every file of length 0..=64",
  expect_fail="c10_wallet_short_witness", covers=0)
K("C10", "c10_services_len4", "c10", ["saito_core::core::consensus::peers::peer_service::PeerService::deserialize_services"], "every byte string of length 0..=4", covers=2)
