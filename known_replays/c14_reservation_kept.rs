// Native reproducer of known finding C14 / c14_delete_releases_reservations (real tokio, real ahash, guard off).
// After a block confirmed transaction T1, Mempool::delete_transactions removes T1 from the pool but
// leaves its input reserved in utxo_map: a later transaction spending the same output (e.g. after
// a reorganisation made it unspent again) is silently refused by Mempool::add_transaction.
#[test]
fn known_c14_reservation_kept() {
    use saito_core::core::consensus::mempool::Mempool;
    use saito_core::core::consensus::slip::Slip;
    use saito_core::core::consensus::transaction::Transaction;
    use saito_core::core::consensus::wallet::Wallet;
    use std::sync::Arc;
    use tokio::sync::RwLock;
    let rt = tokio::runtime::Builder::new_current_thread().build().unwrap();
    rt.block_on(async {
        let wallet = Arc::new(RwLock::new(Wallet::new([1u8; 32], [2u8; 33])));
        let mut pool = Mempool::new(wallet);
        let mut input = Slip::default();
        input.public_key = [2u8; 33];
        input.amount = 100;
        input.block_id = 1;
        input.generate_utxoset_key();
        let mut t1 = Transaction::default();
        t1.from.push(input.clone());
        t1.signature = [7u8; 64];
        t1.hash_for_signature = Some([9u8; 32]);
        pool.add_transaction(t1.clone()).await;
        assert_eq!(pool.transactions.len(), 1);
        pool.delete_transactions(&vec![t1.clone()]);
        assert_eq!(pool.transactions.len(), 0, "confirmed transaction removed from the pool");
        // a different transaction spending the same output
        let mut t2 = Transaction::default();
        t2.from.push(input.clone());
        t2.signature = [8u8; 64];
        t2.hash_for_signature = Some([10u8; 32]);
        pool.add_transaction(t2).await;
        assert_eq!(pool.transactions.len(), 1, "no pooled transaction spends the output, yet the new spender is refused");
    });
}
