#!/bin/bash
# Offline setup: create cache dirs, sync the harness crate's lock file, pre-build the harness crate once.
set -u
cd /verif
mkdir -p .cache/replays .cache/logs evidence replays
export CARGO_NET_OFFLINE=true
cp /repo/Cargo.lock kani/Cargo.lock
python3 - <<'PY'
import sys
sys.path.insert(0, '/verif')
import obligations as OB, os
for pid in OB.ALL_PROPERTY_IDS:
    p = '/verif/.cache/replays/%s.rs' % pid
    if not os.path.exists(p):
        open(p, 'w').write('// playback tests are written here by vcheck when a counterexample is found\n')
PY
# warm the native build of the harness crate (type-check only); the Kani build happens on first check
(cd kani && RUSTFLAGS="--cfg saito_verif" cargo check --offline --target-dir /verif/.cache/native-target >/dev/null 2>&1 || true)
# warm the Kani build of saito-core + harness crate on the shared target dir (no verification)
(cd kani && RUSTFLAGS="--cfg saito_verif" cargo kani --only-codegen --target-dir /verif/.cache/kani-target -Z unstable-options -Z stubbing --harness c10::c10_gt_len97 --exact >/verif/.cache/logs/setup-kani.log 2>&1 || true)
# warm the MIR dump used by engine M
python3-vt - <<'PY' || true
import sys
sys.path.insert(0, '/verif')
from mirsym import run
run.ensure_dump()
PY
echo "setup done"
