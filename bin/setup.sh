#!/bin/bash
# Offline setup: create cache dirs, sync the harness crate's lock file, pre-build the harness crate once.
set -u
cd /verif
mkdir -p .cache/replays .cache/logs evidence replays
export CARGO_NET_OFFLINE=true
cp /repo/Cargo.lock kani/Cargo.lock
python3 - <<'PY'
import sys
sys.path.insert(0, '/verif')
import obligations as OB, os
for pid in OB.ALL_PROPERTY_IDS:
    p = '/verif/.cache/replays/%s.rs' % pid
    if not os.path.exists(p):
        open(p, 'w').write('// playback tests are written here by vcheck when a counterexample is found\n')
PY
# warm the native build of the harness crate (type-check only); the Kani build happens on first check
(cd kani && RUSTFLAGS="--cfg saito_verif" cargo check --offline --target-dir /verif/.cache/native-target >/dev/null 2>&1 || true)
echo "setup done"
