"""Per-property text for MANIFEST.json (see tools/gen_manifest.py)."""
NA_PENDING = "not claimed yet in this revision of the machinery (obligations under construction); see DESIGN.md section 4"
NOT_APPLICABLE = {
    "C12": "quantifies over crash points in the storage journal of a running node and over what restart rebuilds from it: needs whole add_block executions, which neither CBMC (no verdict in 15 min for a single genesis add_block) nor a per-body MIR encoding reaches; the decidable fragment (a torn block file never panics the decoder) is claimed under C10",
    "C20": "quantifies over programs and schedules of a multi-threaded system; Kani has no concurrency, the tokio model is single-task, and a lock-acquisition graph read from MIR would be a static analysis, not a solver verdict over inputs (a different technique)",
}
CHECKS = {}


def check(pid, text, note, technique, design_ref):
    CHECKS[pid] = dict(text=text, note=note, technique=technique, design_ref=design_ref)


BMC = "bounded symbolic model checking of the real code"
check("C10", "Every listed decoder returns Ok/Err without panic, out-of-bounds access or oversized allocation for every byte string of the listed lengths (all bytes symbolic); decided by CBMC on the compiled decoders. Bounded: lengths outside the listed sets are not covered.",
      "trusted: Kani/CBMC, the tokio/ahash shims (not exercised by decoders); two decoders are known findings (GoldenTicket payload length, wallet file length)", "Kani/CBMC bounded model checking (symbolic byte buffers) of the compiled decoders", "DESIGN.md 4/C10")
check("C03", "One-step (inductive) obligations on the chain index and on the utxoset wind/unwind of a transaction, each from an arbitrary pre-state inside a small size bound. Does not cover compositions over block trees.",
      "trusted: Kani/CBMC, ahash shim (association list), sizes concrete per harness", "Kani/CBMC bounded model checking of RingItem / BlockRing / Transaction::on_chain_reorganization steps", "DESIGN.md 4/C03")
check("C08", "Routing work computed for a transaction equals the reference (fee halved per extra hop, zero unless the path is contiguous and ends at the creator) for every path of up to 5 (8) hops with symbolic keys and fees, and Block::validate accepts only when total_work meets the computed requirement and an examined golden ticket validates; decided by z3 over the MIR of the real function, counterexamples replayed natively.",
      "trusted: mirsym's MIR semantics and std models (/verif/mirsym/models.py), z3; fee-transaction construction and the lottery are outside", "MIR-to-SMT symbolic execution (mirsym) decided by z3", "DESIGN.md 4/C08")
check("C01", "Gating obligations on the real validation code: the block-level per-transaction step accepts only when Transaction::validate accepted, detects every re-spend of an output already recorded for the block or repeated inside the transaction and records every value-carrying input; the pool admits a transaction only after Transaction::validate(.., true) returned true. Decided by z3 over the MIR, all paths of the encoded bodies, small input counts.",
      "trusted: mirsym MIR semantics, std/map models, the utxo-key layout model; callees are uninterpreted; chain-history facts are outside", "MIR-to-SMT symbolic execution (mirsym) decided by z3", "DESIGN.md 4/C01")
NOT_APPLICABLE.setdefault('C02', NA_PENDING)
check("C04", "The wind/unwind dispatcher (real MIR of Blockchain::validate, wind_chain, unwind_chain) explored as a bounded transition system for every validity pattern of candidate chains up to 3 (4) blocks against old chains up to 2 (3): termination within the step bound, exact unwind-then-wind order on success, zero net effect on failure, no index panics. The recovery defects of the pinned tree are listed known findings (per size/validity class); all other classes are decided to hold.",
      "trusted: mirsym semantics; uninterpreted callees frame-preserving; wallet/storage effects outside", "MIR-to-SMT symbolic execution (mirsym) of the dispatcher as a bounded transition system, decided by z3", "DESIGN.md 4/C04")
check("C05", "The two fork-choice kernels agree with their reference rules for every value inside the bound: the longest-chain predicate (strictly longer, cumulative burn fee at least as large in u128, ahead of the current tip) for segments of up to 3 (4) blocks, and the 2-in-6 golden-ticket window for every ancestor depth 0..6 and flag pattern.",
      "trusted: mirsym semantics and models; which segments add_block passes in, and delivery-order effects, are outside", "MIR-to-SMT symbolic execution (mirsym) decided by z3", "DESIGN.md 4/C05")
check("C06", "On every path of the real Block::validate body that returns true (full node, non-ghost block and parent) the creator's signature over the pre-hash was verified, the merkle root recomputed from the carried transactions equals the signed header's root, and every carried transaction passed the per-transaction validation; decided by z3 over all ~1500 paths with free callee results.",
      "trusted: mirsym semantics; merkle tree injectivity and the hash derivation are outside; ghost-parent early return excluded (stated)", "MIR-to-SMT symbolic execution (mirsym) decided by z3", "DESIGN.md 4/C06")
NOT_APPLICABLE.setdefault('C07', NA_PENDING)
check("C09", "Slip encode/decode round-trips on every wire field for every slip value, and the transaction decoder accepts every input/output/message/hop count that the encoder and the validator accept (size header agreement), decided by z3 over the MIR of the real encoder and decoder. Other formats are not claimed.",
      "trusted: mirsym semantics, concat/extract models; blocks, messages, snapshot formats outside", "MIR-to-SMT symbolic execution (mirsym) decided by z3", "DESIGN.md 4/C09")
NOT_APPLICABLE.setdefault('C11', NA_PENDING)
check("C13", "Validator-side gates of the rebroadcast mechanism: an accepted block's rebroadcast hash and slip count equal the recomputed ones, and a rebroadcast (ATR) transaction cannot re-use an output already spent in the same block nor escape the double-spend scan. Selection/amount/expiry facts over histories are not claimed.",
      "trusted: mirsym semantics, map and utxo-key models", "MIR-to-SMT symbolic execution (mirsym) decided by z3", "DESIGN.md 4/C13")
NOT_APPLICABLE.setdefault('C14', NA_PENDING)
NOT_APPLICABLE.setdefault('C15', NA_PENDING)
check("C16", "One selection round of the block-fetch scheduler from any queue state satisfying the in-flight invariant: in-flight count stays within the batch size, returned blocks are exactly the Queued entries put in flight, in increasing height order, never one already in flight; a failing block is re-queued only while its retry counter is below 500 and the counter is bounded; a Queued block is left waiting only when the quota is used up. Decided by z3 over the MIR for queues of up to 3 (4) entries.",
      "trusted: mirsym semantics and container models; queue pre-sorted (sort modelled as identity); other scheduler operations and liveness outside", "MIR-to-SMT symbolic execution (mirsym) decided by z3; inductive step from an arbitrary invariant state", "DESIGN.md 4/C16")
check("C17", "One handshake-response step from an arbitrary peer state: the peer is marked Connected / Ok is returned only if a challenge was outstanding and the signature over exactly that challenge by exactly the responder's key verified, the recorded key is the responder's, and the challenge is consumed on acceptance (so the same response is not accepted twice); a bad signature or missing challenge never yields a newly connected peer. Cross-connection replay/reflection is not claimed.",
      "trusted: mirsym semantics; crypto::verify as a free predicate; single step, single connection", "MIR-to-SMT symbolic execution (mirsym) decided by z3; one step from an arbitrary state", "DESIGN.md 4/C17")
NOT_APPLICABLE.setdefault('C18', NA_PENDING)
check("C19", "Each of add_slip, delete_slip, generate_slips and find_slips_for_staking re-establishes the wallet invariant (available balance = sum of the outputs listed as unspent; lists consistent) from every wallet state with up to 3 slips satisfying it, with no arithmetic panic, and generate_slips' inputs and change add up to the requested amount in unbounded arithmetic. Agreement with the ledger is not claimed.",
      "trusted: mirsym semantics, map/set models; amounts within the token supply; ledger agreement, pending transactions, reorg handling outside", "MIR-to-SMT symbolic execution (mirsym) decided by z3; inductive steps from an arbitrary invariant state", "DESIGN.md 4/C19")
